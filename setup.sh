#!/bin/bash
# Offline setup: make sure the interpreter used by ./check has hypothesis (and atheris for C20 thorough).
set -u
HERE="$(cd "$(dirname "${BASH_SOURCE[0]}")" && pwd)"
PY=/venv/bin/python
WH=/opt/veriftools/wheels
$PY -c 'import hypothesis' 2>/dev/null || /venv/bin/pip install -q --no-index --find-links $WH hypothesis || exit 1
$PY -c 'import numpy, scipy' || exit 1
mkdir -p "$HERE/.deps"
PYTHONPATH="$HERE/.deps" $PY -c 'import atheris' 2>/dev/null || \
  /venv/bin/pip install -q --no-index --find-links $WH --target "$HERE/.deps" atheris 2>/dev/null || \
  echo "note: atheris not installable; the C20 fuzz campaign falls back to Hypothesis-driven byte fuzzing"
$PY -c 'import hypothesis; print("setup ok: hypothesis", hypothesis.__version__)'
