"""C09 - A matching index file is transparent."""
import io
import os

import numpy as np
from hypothesis import strategies as st

from vf.harness import Job, describe_exc, exc_key
from vf import strategies as S
from vf import plans as P
from vf.encode import encode_file
from vf.expect import expected_content
from vf.observe import compare_structure, compare_data
from vf.files import scratch_dir
from vf.model import split_path, tsize
from props.C02 import history
from props.C05 import _to_vals

ID = 'C09'
LEVEL = 'exploration'
RULE = ("Hypothesis draws files (C01 generator, and C02 histories with drawn inheritance plans: metadata-less segments, "
        "carried-over lists, padding), written to a scratch directory as x.tdms; the index twin x.tdms_index comes from "
        "the independent encoder (TDSh lead-in + metadata per segment) or, in the writer job, from TdmsWriter itself. "
        "read / open (+ full lazy reads) / read_metadata are compared with the model with and without the index file and "
        "with each other (also for a data file truncated inside its last segment next to a complete index); the index "
        "alone (path and stream) must report the same objects, properties, types and lengths and refuse every data read "
        "on a non-empty channel. Non-trivial: >=2 segments or a metadata-less segment or padding or a truncated file."
        ' Files may contain a non-final segment whose last chunk is incomplete (then only the with/without-index '
        'relation is asserted); writer programs may re-enter one writer object per session.'
        ' tdms_version is part of the compared snapshot.')
ASSUMPTIONS = [
    "vf/encode.py index twin = per segment 'TDSh' + lead-in[4:] + metadata (+ padding), as NI writes it",
    "zero-length channels may return empty arrays in index-only mode; the exception type of refused reads is free",
]


def snapshot(tf, with_data):
    out = {'root': repr(sorted((k, repr(v)) for k, v in tf.properties.items())), 'groups': [g.name for g in tf.groups()]}
    for g in tf.groups():
        out['gprops:' + g.name] = repr(sorted((k, repr(v)) for k, v in g.properties.items()))
        out['chans:' + g.name] = [c.name for c in g.channels()]
        for ch in g.channels():
            d = {'len': len(ch), 'dtype': str(ch.dtype), 'type': None if ch.data_type is None else ch.data_type.__name__,
                 'props': repr(sorted((k, repr(v)) for k, v in ch.properties.items()))}
            if with_data == 'lazy':
                # lazily opened file: chunk stream shape and a window that starts inside a chunk
                try:
                    d['chunk_lengths'] = [len(c) for c in ch.data_chunks()]
                    n0 = len(ch)
                    if n0 >= 2 and ch.data_type is not None:
                        w = ch.read_data(1, n0 - 1)
                        d['window'] = list(w) if ch.data_type.__name__ == 'String' else (
                            _to_vals('ts', w) if ch.data_type.__name__ == 'TimeStamp' else np.asarray(w).tobytes())
                        mid = ch[n0 // 2]
                        d['index'] = repr(mid)
                except Exception as e:      # noqa
                    d['lazy_error'] = type(e).__name__
            if with_data:
                arr = ch[:]
                d['n'] = len(arr)
                if ch.data_type is not None and ch.data_type.__name__ == 'String':
                    d['values'] = list(arr)
                elif ch.data_type is not None and ch.data_type.__name__ == 'TimeStamp':
                    d['values'] = _to_vals('ts', arr)
                else:
                    d['values'] = np.asarray(arr).tobytes()
            out[ch.path] = d
    st_ = tf.file_status
    out['status'] = bool(st_.incomplete_final_segment)
    out['tdms_version'] = tf.tdms_version
    return out


def check(case, rec):
    from nptdms import TdmsFile
    fs = case['fs']
    if case.get('picks') is not None:
        phys, _plans = P.encode_with_plans(fs, lambda i, alts: P.nth_plan(alts, case['picks'][i]))
    else:
        phys = fs
    ex = expected_content(fs)
    truncated = False
    short_mid = case.get('short_mid')
    if short_mid is not None and len(phys['segments']) >= 2:
        # a segment that is NOT the last one lost the tail of its final chunk (its lead-in states the shortened size) and
        # further segments follow: no model for the content, with/without index must still agree
        k = short_mid[0] % (len(phys['segments']) - 1)
        seg = phys['segments'][k]
        size = sum(n * tsize(t) for (_p, t, n) in seg.get('active') or [] if t != 'str') * seg.get('nchunks', 0)
        if size > 1 and not any(t == 'str' for (_p, t, _n) in seg.get('active') or []) and not seg.get('marker'):
            phys = {'segments': [dict(sg, trim_raw=1 + short_mid[1] % (size - 1)) if i == k else sg
                                 for i, sg in enumerate(phys['segments'])]}
            truncated = True
            rec.label('short_final_chunk_in_middle_segment')
    data, index, lay = encode_file(phys, with_index=True)
    if truncated:
        pass
    elif case.get('torn') is not None and phys['segments']:
        # a further segment was being written when the writer died: only some bytes of its lead-in / metadata made it to
        # the data file; the index lists the complete segments only. Content = the complete segments.
        from vf.encode import encode_segment
        extra, info = encode_segment(phys['segments'][-1])
        k = 1 + case['torn'] % max(1, info['data_pos'] - 1)
        data = data + extra[:k]
        rec.label('torn_next_segment')
    elif case.get('cut') is not None and lay and lay[-1]['end'] - lay[-1]['data_pos'] > 1:
        data = data[:lay[-1]['data_pos'] + 1 + case['cut'] % (lay[-1]['end'] - lay[-1]['data_pos'] - 1)]
        truncated = True
    classes = S.spec_classes(phys)
    rec.label(*classes)
    if truncated:
        rec.label('truncated_data_file')
    if case.get('pathlib'):
        rec.label('pathlib.Path')
    rec.nontrivial(len(phys['segments']) >= 2 or 'padding' in classes or 'no_metadata_segment' in classes or truncated)
    with scratch_dir() as d:
        path = os.path.join(d, 'x.tdms')
        ipath = path + '_index'
        with open(path, 'wb') as f:
            f.write(data)
        snaps = {}
        for have_index in (False, True):
            if have_index:
                with open(ipath, 'wb') as f:
                    f.write(index)
            tag = 'with_index' if have_index else 'no_index'
            for api in ('read', 'open', 'read_metadata'):
                fn = getattr(TdmsFile, api)
                src_path = path
                if case.get('pathlib'):
                    import pathlib
                    src_path = pathlib.Path(path)           # documented alternative to a path string
                ok, tf = rec.guard('%s:%s' % (tag, api), lambda: fn(src_path, raw_timestamps=True))
                if not ok:
                    continue
                try:
                    if not truncated:
                        for clause, msg in compare_structure(ex, tf, raw_ts=True):
                            rec.violation('%s:%s:%s' % (tag, api, clause), msg)
                        if api != 'read_metadata':
                            ok, res = rec.guard('%s:%s' % (tag, api),
                                                lambda: compare_data(ex, tf, lambda ch: ch[:], raw_ts=True))
                            if ok:
                                for clause, msg in res:
                                    rec.violation('%s:%s:%s' % (tag, api, clause), msg)
                    ok, sn = rec.guard('%s:%s' % (tag, api), lambda: snapshot(tf, 'lazy' if api == 'open' else api != 'read_metadata'))
                    if ok:
                        snaps[(have_index, api)] = sn
                finally:
                    tf.close()
        for api in ('read', 'open', 'read_metadata'):
            a = snaps.get((False, api))
            b = snaps.get((True, api))
            if a is not None and b is not None and a != b:
                diff = [k for k in a if a.get(k) != b.get(k)] + [k for k in b if k not in a]
                rec.violation('transparent:' + api, 'result with index differs from result without index at %r: %r vs %r' % (
                    diff[:3], a.get(diff[0]), b.get(diff[0])))
        # ---- index only --------------------------------------------------------------------
        if not truncated:
            for src_name in ('index_path', 'index_stream'):
                def src():
                    return ipath if src_name == 'index_path' else io.BytesIO(index)
                for api in ('read', 'open', 'read_metadata'):
                    fn = getattr(TdmsFile, api)
                    ok, tf = rec.guard('%s:%s' % (src_name, api), lambda: fn(src(), raw_timestamps=True))
                    if not ok:
                        continue
                    try:
                        for clause, msg in compare_structure(ex, tf, raw_ts=True):
                            rec.violation('%s:%s:%s' % (src_name, api, clause), msg)
                        for p in ex.channel_paths():
                            if ex.length(p) == 0:
                                continue
                            g, c = split_path(p)
                            ch = tf[g][c]
                            reads = [('[:]', lambda: ch[:]), ('[0]', lambda: ch[0]), ('read_data', lambda: ch.read_data()),
                                     ('read_data(0,1)', lambda: ch.read_data(0, 1)),
                                     ('data_chunks', lambda: [x[:] for x in ch.data_chunks()]),
                                     ('file.data_chunks', lambda: [x[g][c][:] for x in tf.data_chunks()]),
                                     ('iter', lambda: list(ch))]
                            for name, rd in reads:
                                try:
                                    got = rd()
                                except Exception:       # noqa  refusal = any exception
                                    continue
                                rec.violation('index_only_refuses:' + name,
                                              '%s %s: %s on %s (len %d) returned %r instead of raising' % (
                                                  src_name, api, name, p, ex.length(p), type(got).__name__))
                            break
                    finally:
                        tf.close()


@st.composite
def cases_c01(draw, **kw):
    fs = draw(S.file_spec(**kw))
    return {'fs': fs, 'picks': None, 'cut': draw(st.one_of(st.none(), st.none(), st.integers(0, 10 ** 6))),
            'torn': draw(st.one_of(st.none(), st.none(), st.none(), st.integers(0, 10 ** 6))),
            'short_mid': draw(st.one_of(st.none(), st.none(), st.none(),
                                        st.tuples(st.integers(0, 100), st.integers(0, 10 ** 6)).map(list))),
            'pathlib': draw(st.integers(0, 3)) == 0}


@st.composite
def cases_plans(draw):
    h = draw(history(max_segments=6, max_channels=3))
    for seg in h['fs']['segments']:
        if draw(st.integers(0, 4)) == 0:
            seg['pad'] = draw(st.integers(1, 7))
    return {'fs': h['fs'], 'picks': h['picks'], 'cut': draw(st.one_of(st.none(), st.none(), st.integers(0, 10 ** 6)))}


def check_writer_index(case, rec):
    """index file produced by TdmsWriter itself (incl. append sessions): reads with and without it must agree"""
    from nptdms import TdmsFile
    from vf import wprog as W
    prog = case
    rec.label('writer_index', 'sessions=%d' % len(prog['sessions']))
    with scratch_dir() as d:
        try:
            res = W.run_program(prog, d)
        except Exception as e:      # noqa
            rec.violation('writer:raised', describe_exc(e), key=exc_key(e))
            return
        if not res['accepted']:
            rec.stat('programs_rejected')
            return
        nseg = sum(1 for c in prog['sessions'] for call in c if not isinstance(call, dict))
        if nseg == 0:
            return
        rec.nontrivial(nseg >= 2)
        path = res['path']
        snaps = {}
        for have_index in (True, False):
            if not have_index:
                os.remove(path + '_index')
            for api in ('read', 'open', 'read_metadata'):
                ok, tf = rec.guard('writer_index:%s:%s' % ('with' if have_index else 'without', api),
                                   lambda: getattr(TdmsFile, api)(path, raw_timestamps=True))
                if not ok:
                    continue
                try:
                    ok, sn = rec.guard('writer_index:%s' % api, lambda: snapshot(tf, 'lazy' if api == 'open' else api != 'read_metadata'))
                    if ok:
                        snaps[(have_index, api)] = sn
                finally:
                    tf.close()
        for api in ('read', 'open', 'read_metadata'):
            a, b = snaps.get((False, api)), snaps.get((True, api))
            if a is not None and b is not None and a != b:
                diff = [k for k in a if a.get(k) != b.get(k)] + [k for k in b if k not in a]
                rec.violation('transparent_writer_index:' + api, 'reading with the writer\'s index file differs from reading '
                              'without it at %r: %r vs %r' % (diff[:3], b.get(diff[0]), a.get(diff[0])))
        # index alone describes the same objects and lengths
        with open(path, 'rb') as f:
            pass


def _writer_programs():
    from vf import wprog as W
    return W.program(index=True).map(lambda p: dict(p, dest='path', index=True))


def jobs(tier):
    if tier == 'quick':
        return [Job('files', 'hyp', lambda: cases_c01(max_segments=4), n=900),
                Job('inheritance_plans', 'hyp', cases_plans, n=900),
                Job('writer_index', 'hyp', _writer_programs, n=700, check=check_writer_index)]
    return [Job('files', 'hyp', lambda: cases_c01(max_segments=6), n=40000),
            Job('inheritance_plans', 'hyp', cases_plans, n=40000),
            Job('writer_index', 'hyp', _writer_programs, n=25000, check=check_writer_index)]
