"""C17 - Sensor scalings invert their sensor laws."""
import io
import math

import numpy as np
from hypothesis import strategies as st

from vf.harness import Job, describe_exc, exc_key
from vf import scales as SC
from vf.encode import encode_file
from vf.model import make_path

ID = 'C17'
LEVEL = 'exploration'
RULE = ("Hypothesis draws physically meaningful parameter sets and true temperatures / strains; the measured voltage is computed "
        "with independently written forward laws - Callendar-Van Dusen R(T) (with the C (T-100) T^3 term below 0 degC) and V = "
        "I (R + k R_lead), k = 0/1/2 for 4/3/2-wire; Steinhart-Hart 1/T = A + B ln R + C ln^3 R with current excitation or the "
        "voltage divider V = Vex R'/(R1 + R'); the Wheatstone bridge Vo/Vex = R3/(R3+R4) - R2/(R1+R2) with the four arm "
        "resistances of each of the 7 NI bridge types, lead-wire desensitisation Rg/(Rg+Rl) for half/quarter bridges, gain "
        "adjustment and initial bridge voltage - and fed to the scaling class directly and through a generated TDMS file "
        "(float64 and float32/integer raw data where meaningful). The result must equal the generating quantity within "
        "1e-6 * max(|x|, 1 K resp. 1e-6 strain). Polynomial and table scalings are compared with Horner and clamped "
        "interpolation. Non-trivial: lead resistance > 0, or T < 0 degC, or initial voltage != 0, or gain != 1."
        ' Through files the sensor scale may be fed by Linear scales (input source 0 or 1, power-of-two slopes so that '
        'the pre-image is exact) instead of the raw data.'
        ' Float32 voltages (truth = numerical inverse of the forward law at the rounded voltage) and repeated '
        'evaluation with one scaling object are included.')
ASSUMPTIONS = [
    "RTD coefficients within +-5 % of the IEC 60751 values, so the quartic has a single negative real root",
    "voltage-excitation thermistor in 2-wire configuration only with zero lead resistance (compensation rule not documented)",
    "gain adjustment and lead-wire correction follow NI's documented factors (reported = gain * (1 + Rl/Rg) * bridge strain); "
    "the bridge core is first-principles resistor arithmetic",
]

A0, B0, C0 = 3.9083e-3, -5.775e-7, -4.183e-12


def _f(lo, hi):
    return st.floats(min_value=lo, max_value=hi, allow_nan=False, allow_infinity=False)


@st.composite
def rtd_case(draw):
    k = draw(st.sampled_from([2, 3, 4]))
    temps = draw(st.lists(st.one_of(st.sampled_from([0.0, -200.0, 850.0, 100.0, -1e-9, 1e-9, -0.5, 0.5, -1e-13]),
                                    _f(-200.0, 850.0), _f(-5.0, 5.0)), min_size=1, max_size=6))
    return {'kind': 'rtd', 'R0': draw(st.one_of(st.sampled_from([100.0, 1000.0, 500.0]), _f(10.0, 2000.0))),
            'A': A0 * draw(_f(0.95, 1.05)), 'B': B0 * draw(_f(0.95, 1.05)), 'C': C0 * draw(_f(0.95, 1.05)),
            'I': draw(_f(1e-4, 1e-2)), 'wires': k, 'lead': draw(st.one_of(st.just(0.0), _f(0.0, 10.0))), 'T': temps,
            'via_file': draw(st.booleans()), 'chain': [draw(st.integers(0, 3)), draw(st.sampled_from([2.0, 0.5, -4.0, 1024.0])), draw(st.sampled_from([0.0, 0.0, 1.0]))],
            'raw32': draw(st.integers(0, 4)) == 0,
            # a second sensor (different Callendar-Van Dusen coefficients) measured with the same circuit: its scaling is
            # evaluated on the SAME voltages right after the first one
            'alt': [A0 * draw(_f(0.95, 1.05)), B0 * draw(_f(0.95, 1.05)), C0 * draw(_f(0.95, 1.05))]}


def rtd_forward(c, T):
    R0, A, B, C = c['R0'], c['A'], c['B'], c['C']
    if T >= 0:
        R = R0 * (1 + A * T + B * T * T)
    else:
        R = R0 * (1 + A * T + B * T * T + C * (T - 100.0) * T ** 3)
    kk = {4: 0, 3: 1, 2: 2}[c['wires']]
    return c['I'] * (R + kk * c['lead'])


@st.composite
def thermistor_case(draw):
    exc = draw(st.sampled_from(['I', 'V']))
    wires = draw(st.sampled_from([2, 3, 4]))
    lead = draw(st.one_of(st.just(0.0), _f(0.0, 10.0)))
    if exc == 'V' and wires == 2:
        lead = 0.0
    return {'kind': 'thermistor', 'exc': exc, 'value': draw(_f(1e-5, 1e-3)) if exc == 'I' else draw(_f(1.0, 10.0)),
            'wires': wires, 'R1': draw(_f(1e3, 1e5)), 'lead': lead,
            'A': draw(_f(1.0e-3, 1.5e-3)), 'B': draw(_f(2.0e-4, 3.0e-4)), 'C': draw(_f(5e-8, 2e-7)),
            'offset': draw(st.sampled_from([0.0, 273.15, 25.0])),
            'lnR': draw(st.lists(_f(math.log(30.0), math.log(3e5)), min_size=1, max_size=6)),
            'raw32': draw(st.integers(0, 4)) == 0,
            'via_file': draw(st.booleans()), 'chain': [draw(st.integers(0, 3)), draw(st.sampled_from([2.0, 0.5, -4.0, 1024.0])), draw(st.sampled_from([0.0, 0.0, 1.0]))]}


def thermistor_forward(c, lnR):
    R = math.exp(lnR)
    T = 1.0 / (c['A'] + c['B'] * lnR + c['C'] * lnR ** 3)
    kk = {4: 0, 3: 1, 2: 2}[c['wires']]
    Rp = R + kk * c['lead']
    if c['exc'] == 'I':
        V = c['value'] * Rp
    else:
        V = c['value'] * Rp / (c['R1'] + Rp)
    return V, T - c['offset']


BRIDGES = [10183, 10184, 10185, 10188, 10189, 10271, 10272]


@st.composite
def strain_case(draw):
    return {'kind': 'strain', 'bridge': draw(st.sampled_from(BRIDGES)), 'GF': draw(_f(1.0, 4.0)), 'nu': draw(_f(0.0, 0.5)),
            'Vex': draw(_f(1.0, 10.0)), 'Rg': draw(st.sampled_from([120.0, 350.0, 1000.0])),
            'lead': draw(st.one_of(st.just(0.0), _f(0.0, 20.0))),
            'gain': draw(st.one_of(st.just(1.0), _f(0.5, 2.0))),
            'Vinit': draw(st.one_of(st.just(0.0), _f(-1e-3, 1e-3))),
            'eps': draw(st.lists(st.one_of(st.sampled_from([0.0, 1e-6, -1e-6, 5e-3, -5e-3]), _f(-5e-3, 5e-3)),
                                 min_size=1, max_size=6)),
            'via_file': draw(st.booleans()), 'raw32': draw(st.integers(0, 5)) == 0, 'chain': [draw(st.integers(0, 3)), draw(st.sampled_from([2.0, 0.5, -4.0, 1024.0])), draw(st.sampled_from([0.0, 0.0, 1.0]))]}


def strain_forward(c, eps):
    G, nu, R0 = c['GF'], c['nu'], c['Rg']
    b = c['bridge']
    e = eps / c['gain']
    if b in (10188, 10189, 10271, 10272):
        e = e / (1.0 + c['lead'] / c['Rg'])          # lead wires in series desensitise the gauge
    if b == 10183:
        R1 = R3 = R0 * (1 - e * G)
        R2 = R4 = R0 * (1 + e * G)
    elif b == 10184:
        R1, R2 = R0 * (1 - e * nu * G), R0 * (1 + e * nu * G)
        R3, R4 = R0 * (1 - e * G), R0 * (1 + e * G)
    elif b == 10185:
        R1 = R3 = R0 * (1 - e * nu * G)
        R2 = R4 = R0 * (1 + e * G)
    elif b == 10188:
        R1 = R2 = R0
        R3, R4 = R0 * (1 - e * nu * G), R0 * (1 + e * G)
    elif b == 10189:
        R1 = R2 = R0
        R3, R4 = R0 * (1 - e * G), R0 * (1 + e * G)
    else:
        R1 = R2 = R3 = R0
        R4 = R0 * (1 + e * G)
    vo = (R3 / (R3 + R4) - R2 / (R1 + R2)) * c['Vex']
    return vo + c['Vinit']


def rtd_invert(c, volts):
    """numerical inverse of the forward law by bisection (R(T) is increasing on the sensor's range)"""
    out = []
    for v in volts:
        lo, hi = -260.0, 1000.0
        for _ in range(200):
            mid = 0.5 * (lo + hi)
            if rtd_forward(c, mid) < v:
                lo = mid
            else:
                hi = mid
        out.append(0.5 * (lo + hi))
    return out


def invert_monotone(f, v, lo, hi):
    """x in [lo, hi] with f(x) = v for a strictly monotone f (either direction), by bisection"""
    inc = f(hi) > f(lo)
    for _ in range(200):
        mid = 0.5 * (lo + hi)
        if (f(mid) < v) == inc:
            lo = mid
        else:
            hi = mid
    return 0.5 * (lo + hi)


def truth_from_voltage(c, v):
    """the quantity that produces voltage v according to the forward law (numerical inverse, independent of the library)"""
    if c['kind'] == 'rtd':
        return rtd_invert(c, [v])[0]
    if c['kind'] == 'thermistor':
        lnr = invert_monotone(lambda x: thermistor_forward(c, x)[0], v, math.log(1.0), math.log(1e7))
        return thermistor_forward(c, lnr)[1]
    return invert_monotone(lambda e: strain_forward(c, e), v, -2e-2, 2e-2)


def _scale_obj(c):
    from nptdms import scaling
    if c['kind'] == 'rtd':
        return scaling.RtdScaling(c['I'], c['R0'], c['A'], c['B'], c['C'], c['lead'], c['wires'], 0xFFFFFFFF)
    if c['kind'] == 'thermistor':
        return scaling.ThermistorScaling(10134 if c['exc'] == 'I' else 10322, c['value'], c['wires'], c['R1'], c['lead'],
                                         c['A'], c['B'], c['C'], c['offset'], 0xFFFFFFFF)
    return scaling.StrainScaling(c['bridge'], c['nu'], c['Rg'], c['lead'], c['Vinit'], c['GF'], c['gain'], c['Vex'],
                                 0xFFFFFFFF)


def _graph(c):
    if c['kind'] == 'rtd':
        p = {'RTD_Current_Excitation': c['I'], 'RTD_R0_Nominal_Resistance': c['R0'], 'RTD_A': c['A'], 'RTD_B': c['B'],
             'RTD_C': c['C'], 'RTD_Lead_Wire_Resistance': c['lead'], 'RTD_Resistance_Configuration': c['wires']}
        return [{'type': 'RTD', 'p': p, 'src': None}]
    if c['kind'] == 'thermistor':
        p = {'Thermistor_Excitation_Type': 10134 if c['exc'] == 'I' else 10322, 'Thermistor_Excitation_Value': c['value'],
             'Thermistor_Resistance_Configuration': c['wires'], 'Thermistor_R1_Reference_Resistance': c['R1'],
             'Thermistor_Lead_Wire_Resistance': c['lead'], 'Thermistor_A': c['A'], 'Thermistor_B': c['B'],
             'Thermistor_C': c['C'], 'Thermistor_Temperature_Offset': c['offset']}
        return [{'type': 'Thermistor', 'p': p, 'src': None}]
    p = {'Strain_Configuration': c['bridge'], 'Strain_Poisson_Ratio': c['nu'], 'Strain_Gage_Resistance': c['Rg'],
         'Strain_Lead_Wire_Resistance': c['lead'], 'Strain_Initial_Bridge_Voltage': c['Vinit'], 'Strain_Gage_Factor': c['GF'],
         'Strain_Bridge_Shunt_Calibration_Gain_Adjustment': c['gain'], 'Strain_Voltage_Excitation': c['Vex']}
    return [{'type': 'Strain', 'p': p, 'src': None}]


class InputModified(Exception):
    pass


def run_scaling(c, volts):
    """apply the scaling directly or through a generated file; returns (float64 result, float64 voltages the sensor scale saw)"""
    v = np.array(volts, dtype=np.float64)
    raw_t = 'f32' if c.get('raw32') else 'f64'
    raw_dt = np.float32 if c.get('raw32') else np.float64
    if not c.get('via_file'):
        given = v.astype(raw_dt)
        arr = given.copy()
        sc = _scale_obj(c)
        out = np.array(sc.scale(arr), dtype=np.float64)
        if arr.tobytes() != given.tobytes():
            raise InputModified('scale() overwrote its input array: %r -> %r' % (given[:3], arr[:3]))
        # the same scaling object evaluated again (a channel re-uses its scaling object for every read)
        again = np.array(sc.scale(given.copy()), dtype=np.float64)
        third = np.array(sc.scale(given.copy()), dtype=np.float64)
        if again.tobytes() != out.tobytes() or third.tobytes() != out.tobytes():
            raise InputModified('repeated evaluation with one scaling object differs: %r, then %r, then %r' % (
                out[:3], again[:3], third[:3]))
        return out, given.astype(np.float64)
    from nptdms import TdmsFile
    p = make_path('g', 'c')
    # Linear scales in front of the sensor scale (input source = a scale index instead of the raw data)
    shape, m, c0 = c.get('chain') or [0, 2.0, 0.0]
    graph, raw_for = SC.chain_before(_graph(c)[0], shape, m, c0)
    v = np.array(raw_for(v), dtype=np.float64).astype(raw_dt)
    seen = v.astype(np.float64) if not shape else np.asarray(SC.eval_graph(graph, v, upto=graph[-1]['src'])[0], dtype=np.float64)
    seg = {'be': False, 'interleaved': False,
           'entries': [{'path': p, 'hdr': 'full', 'type': raw_t, 'n': len(v), 'props': SC.graph_props(graph, True)}],
           'active': [[p, raw_t, len(v)]], 'nchunks': 1, 'data': {p: [v.tobytes()]}}
    data, _i, _l = encode_file({'segments': [seg]})
    tf = TdmsFile.read(io.BytesIO(data))
    ch = tf['g']['c']
    first = np.array(ch.read_data(), dtype=np.float64)
    again = np.array(ch.read_data(), dtype=np.float64)
    raw = np.asarray(ch.raw_data)
    if raw.tobytes() != v.tobytes():
        raise InputModified('raw_data after a scaled read is %r, the file holds %r' % (raw[:3], v[:3]))
    if first.tobytes() != again.tobytes():
        raise InputModified('second scaled read %r differs from the first %r' % (again[:3], first[:3]))
    return np.asarray(ch[:], dtype=np.float64), seen


def check(case, rec):
    c = case
    kind = c['kind']
    rec.label('kind=' + kind, 'via_file' if c.get('via_file') else 'direct')
    if c.get('via_file') and (c.get('chain') or [0])[0]:
        rec.label('sensor_fed_by_another_scale')
    if kind == 'rtd':
        truth = list(c['T'])
        volts = [rtd_forward(c, T) for T in truth]
        x0 = 1.0
        rec.nontrivial(c['lead'] > 0 or any(T < 0 for T in truth))
        rec.label('wires=%d' % c['wires'])
        if any(T < 0 for T in truth):
            rec.label('negative_temperature')
        if any(abs(T) < 1e-6 for T in truth):
            rec.label('temperature_at_zero')
    elif kind == 'thermistor':
        pairs = [thermistor_forward(c, x) for x in c['lnR']]
        volts = [p[0] for p in pairs]
        truth = [p[1] for p in pairs]
        x0 = 1.0
        rec.nontrivial(c['lead'] > 0 or c['exc'] == 'V')
        rec.label('exc=' + c['exc'], 'wires=%d' % c['wires'])
    elif kind == 'strain':
        truth = list(c['eps'])
        volts = [strain_forward(c, e) for e in truth]
        x0 = 1e-6
        rec.nontrivial(c['lead'] > 0 or c['Vinit'] != 0 or c['gain'] != 1.0)
        rec.label('bridge=%d' % c['bridge'])
    else:
        return check_poly_table(case, rec)
    try:
        got, seen = run_scaling(c, volts)
        if c.get('raw32'):
            # the measured voltage is a float32: the quantity that produces THAT voltage is the truth
            rec.label('float32_voltage')
            truth = [truth_from_voltage(c, float(x)) for x in seen]
    except InputModified as e:
        rec.violation('%s:raw_modified' % kind, str(e))
        return
    except Exception as e:      # noqa
        rec.violation('%s:raised' % kind, 'parameters %r inputs %r: %s' % (
            {k: v for k, v in c.items() if k not in ('T', 'eps', 'lnR')}, truth, describe_exc(e)), key=exc_key(e))
        return
    if kind == 'rtd' and c.get('alt'):
        c2 = dict(c, A=c['alt'][0], B=c['alt'][1], C=c['alt'][2], alt=None)
        want2 = rtd_invert(c2, volts)
        try:
            got2, seen2 = run_scaling(c2, volts)
            if c2.get('raw32'):
                want2 = rtd_invert(c2, [float(x) for x in seen2])
        except InputModified as e:
            rec.violation('rtd:raw_modified', str(e))
            return
        except Exception as e:      # noqa
            got2 = None
            if all(-200.0 <= w <= 850.0 for w in want2):
                rec.violation('rtd:raised', 'second sensor on the same voltages: %s' % describe_exc(e), key=exc_key(e))
        if got2 is not None:
            for w, g2 in zip(want2, got2):
                if -200.0 <= w <= 850.0 and not abs(g2 - w) <= 1e-6 * max(abs(w), 1.0) + 1e-9:
                    rec.violation('rtd:inverse', 'second sensor (A,B,C = %r) on the same voltages: true value %r, scaling returned '
                                  '%r; first sensor %r' % (c['alt'], w, float(g2), {k: c[k] for k in ('R0', 'A', 'B', 'C', 'wires', 'lead')}))
                    break
    for t, g in zip(truth, got):
        tol = 1e-6 * max(abs(t), x0)
        if not abs(g - t) <= tol:
            rec.violation('%s:inverse' % kind, 'true value %r, scaling returned %r (error %.3g, tolerance %.3g); parameters %r' % (
                t, float(g), abs(g - t), tol, {k: v for k, v in c.items() if k not in ('T', 'eps', 'lnR')}))
            break
        rec.maxstat('max_rel_error_' + kind, float(abs(g - t) / max(abs(t), x0)))


@st.composite
def poly_table_case(draw):
    xs = draw(st.lists(_f(-1e3, 1e3), min_size=1, max_size=6))
    if draw(st.booleans()):
        return {'kind': 'poly', 'x': xs,
                'coeffs': draw(st.lists(st.one_of(st.sampled_from([0.0, 0.0, 1.0, -1.0]), _f(-1e3, 1e3)), min_size=0, max_size=8))}
    k = draw(st.integers(2, 8))
    # knots and values on decimal grids of realistic magnitude (denormal spacings only probe the oracle's own rounding)
    knots = sorted(v / 1000.0 for v in draw(st.lists(st.integers(-10 ** 6, 10 ** 6), min_size=k, max_size=k, unique=True)))
    ys = [v / 1e6 for v in draw(st.lists(st.integers(-10 ** 9, 10 ** 9), min_size=k, max_size=k))]
    xs = xs + [knots[0], knots[-1], knots[k // 2], knots[0] - 1.0, knots[-1] + 1.0]
    return {'kind': 'table', 'scaled': knots[::-1] if draw(st.booleans()) else knots, 'pre': ys, 'x': xs}


class _Raw(object):
    """minimal stand-in for the raw channel data object MultiScaling.scale expects"""

    def __init__(self, data):
        self.data = data
        self.scaler_data = {}


def check_poly_table(case, rec):
    from nptdms import scaling
    x = np.array(case['x'], dtype=np.float64)
    rec.nontrivial(True)
    rec.label('kind=' + case['kind'])
    try:
        if case['kind'] == 'poly':
            # through the property interface, as a file would define it
            graph = [{'type': 'Polynomial', 'coeffs': list(case['coeffs']), 'src': None, 'explicit_src': False, 'size_prop': True}]
            props = {name: value for (name, _pt, value) in SC.graph_props(graph, True)}
            ms = scaling.get_scaling(props, {}, {})
            got = np.array(ms.scale(_Raw(x.copy())), dtype=np.float64)
            for k in (2, 3):
                rep = np.array(ms.scale(_Raw(x.copy())), dtype=np.float64)
                if rep.tobytes() != got.tobytes():
                    rec.violation('poly:repeat', 'evaluation %d with the same scaling object gives %r, the first gave %r '
                                  '(coefficients %r)' % (k, rep[:3], got[:3], case['coeffs']))
                    return
            direct = scaling.PolynomialScaling(list(case['coeffs']), 0xFFFFFFFF).scale(x.copy())
            if np.asarray(direct, dtype=np.float64).tobytes() != np.asarray(got, dtype=np.float64).tobytes():
                rec.violation('poly:formula', 'polynomial %r defined through properties gives %r, the class gives %r' % (
                    case['coeffs'], np.asarray(got)[:3], np.asarray(direct)[:3]))
            want = SC.horner(case['coeffs'], x)
            mag = SC.horner([abs(c) for c in case['coeffs']], np.abs(x))
        else:
            pre = list(case['pre'])
            scaled = list(case['scaled'])
            if scaled[0] > scaled[-1]:
                pre_sorted, scaled_sorted = pre[::-1], scaled[::-1]
            else:
                pre_sorted, scaled_sorted = pre, scaled
            ts_obj = scaling.TableScaling(np.array(pre), np.array(scaled), 0xFFFFFFFF)
            got = np.array(ts_obj.scale(x.copy()), dtype=np.float64)
            rep = np.array(ts_obj.scale(x.copy()), dtype=np.float64)
            if rep.tobytes() != got.tobytes():
                rec.violation('table:repeat', 'second evaluation with the same scaling object gives %r, the first gave %r' % (
                    rep[:3], got[:3]))
                return
            want = SC.clamped_interp(x, scaled_sorted, pre_sorted)
            mag = np.full(x.shape, max(abs(v) for v in pre)) * 4
            # the same table defined through properties, fed by NI_Scale[0] (a Linear scale), i.e. input source 0
            graph = [{'type': 'Linear', 'slope': 0.5, 'intercept': 1.0, 'src': None, 'explicit_src': False},
                     {'type': 'Table', 'scaled': scaled, 'pre': pre, 'src': 0, 'explicit_src': True}]
            props = {name: value for (name, _pt, value) in SC.graph_props(graph, True)}
            chained = np.asarray(scaling.get_scaling(props, {}, {}).scale(_Raw(x.copy())), dtype=np.float64)
            want_chained = SC.clamped_interp(x * 0.5 + 1.0, scaled_sorted, pre_sorted)
            tolc = 1e-9 * np.maximum(mag, 1e-300) + 1e-300
            badc = np.nonzero(~(np.abs(chained - want_chained) <= tolc))[0]
            if len(badc):
                i = int(badc[0])
                rec.violation('table:formula', 'table fed by NI_Scale[0] (0.5 x + 1): x=%r gives %r, reference %r' % (
                    x[i], chained[i], want_chained[i]))
    except Exception as e:      # noqa
        rec.violation('%s:raised' % case['kind'], describe_exc(e), key=exc_key(e))
        return
    got = np.asarray(got, dtype=np.float64)
    tol = 1e-12 * np.maximum(mag, 1e-300) + 1e-300
    bad = np.nonzero(~(np.abs(got - want) <= tol))[0]
    if len(bad):
        i = int(bad[0])
        rec.violation('%s:formula' % case['kind'], 'x=%r: scaling %r, reference %r' % (x[i], got[i], want[i]))


def jobs(tier):
    n = {'quick': 1, 'thorough': 30}[tier]
    return [Job('rtd', 'hyp', rtd_case, n=2500 * n), Job('thermistor', 'hyp', thermistor_case, n=2500 * n),
            Job('strain', 'hyp', strain_case, n=3500 * n), Job('polynomial_table', 'hyp', poly_table_case, n=1500 * n)]
