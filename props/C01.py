"""C01 - Reading returns exactly the content the file encodes."""
from hypothesis import strategies as st

from vf.harness import Job
from vf import strategies as S
from vf.encode import encode_file
from vf.expect import expected_content
from vf.observe import compare_structure, compare_data
from vf.model import ALL_TYPES

ID = 'C01'
LEVEL = 'exploration'
DESIGN_REF = 'DESIGN.md section 4, C01'
RULE = ("Hypothesis draws logical files (1-6 segments, quick; up to 12 or 100-260 short segments, thorough; "
        "1-3 groups, 1-5 channels, values-per-chunk 0-6 (thorough up to 300), 1-3 chunks, the 17 readable "
        "types, contiguous/interleaved, byte order per segment, padding, 13 property types with rewrites, "
        "listed no-data objects), encodes them with the independent encoder and compares TdmsFile.read with "
        "the model. A case is non-trivial when >=1 channel carries data and the file has >=2 segments or a "
        "multi-chunk, interleaved or big-endian segment; distinct = distinct SHA-1 of the canonical case JSON."
        ' A further job reads C02 histories in a randomly chosen compressed physical encoding (inherited raw indexes, '
        'metadata-less segments after header-only segments); the shared generator also emits segments that declare '
        'channels but hold no chunk.'
        ' Wide files (120-400 channels in up to 12 groups) are included; property names include ones that look like '
        "internal keys ('name', 'path', 'wf_start_time').")
ASSUMPTIONS = [
    "the independent encoder (vf/encode.py) implements the NI TDMS layout correctly",
    "well-formed files only: valid UTF-8, no duplicate path in one metadata block, one data type per channel",
    "order of groups that are only implied by channels is not asserted",
    "timestamps read without raw_timestamps are only required to be within 1 us of the exact time (C12)",
]


def _nontrivial(fs):
    segs = fs['segments']
    has_data = any(s.get('nchunks', 0) > 0 and s.get('active') for s in segs)
    if not has_data:
        return False
    return (len(segs) >= 2 or any(s.get('nchunks', 0) > 1 for s in segs) or
            any(s.get('interleaved') for s in segs) or any(s.get('be') for s in segs))


def check(case, rec):
    from nptdms import TdmsFile
    import io
    fs = case
    if 'picks' in case:
        # the same content in a compressed physical encoding (reused / omitted indexes, metadata-less segments; see C02)
        from vf import plans as P
        fs = case['fs']
        phys, _plans = P.encode_with_plans(fs, lambda i, alts: P.nth_plan(alts, case['picks'][i]))
        data, _idx, _lay = encode_file(phys)
        rec.label('compressed_encoding', *S.spec_classes(phys))
    else:
        data, _idx, _lay = encode_file(fs)
    ex = expected_content(fs)
    rec.nontrivial(_nontrivial(fs))
    rec.label(*S.spec_classes(fs))
    rec.stat('file_bytes', len(data))
    def stream():
        if fs.get('short_reads'):
            from vf.observe import ShortReadStream
            return ShortReadStream(data, fs['short_reads'])
        return io.BytesIO(data)
    if fs.get('short_reads'):
        rec.label('stream_with_short_readinto')
    for raw_ts in ((True,) if fs.get('raw_only') else (True, False)):
        ok, tf = rec.guard('read', lambda: TdmsFile.read(stream(), raw_timestamps=raw_ts))
        if not ok:
            return
        for clause, msg in compare_structure(ex, tf, raw_ts=raw_ts):
            rec.violation(clause, msg)
        ok, res = rec.guard('read', lambda: compare_data(ex, tf, lambda ch: ch[:], raw_ts=raw_ts))
        if ok:
            for clause, msg in res:
                rec.violation(clause, msg)


def _long_file():
    return S.file_spec(min_segments=100, max_segments=260, max_channels=3, max_n=3, max_chunks=2,
                       props=False, pad=False, nodata_entries=False, values='unique', names='simple')


def _extreme_ts():
    # timestamps outside the datetime64[us] range are well-formed TDMS but only representable raw
    return S.file_spec(max_segments=3, types=['ts', 'i16'], ts_extreme=True, props=False).map(
        lambda fs: dict(fs, raw_only=True))


@st.composite
def _short_read_files(draw):
    fs = draw(S.file_spec(max_segments=4, max_n=12))
    return dict(fs, short_reads=draw(st.integers(1, 24)))


def _wide_file():
    # hundreds of channels in a few groups, two or three short segments
    return S.file_spec(min_segments=1, max_segments=3, min_channels=120, max_channels=400, max_groups=12, max_n=2, max_chunks=2,
                       names='wide', props=False, pad=False, nodata_entries=False, values='unique', str_max=3)


def _compressed():
    from props.C02 import history
    return history(max_segments=6, max_channels=4)


def jobs(tier):
    if tier == 'quick':
        return [
            Job('files', 'hyp', lambda: S.file_spec(max_segments=6), n=6000),
            Job('short_read_streams', 'hyp', _short_read_files, n=1000),
            Job('extreme_ts', 'hyp', _extreme_ts, n=500),
            Job('long_files', 'hyp', _long_file, n=48),
            Job('wide_files', 'hyp', _wide_file, n=32, note='120-400 channels in up to 12 groups'),
            Job('compressed_encodings', 'hyp', _compressed, n=1500,
                note='C02 histories in a randomly chosen physical encoding (inherited indexes, metadata-less segments)'),
        ]
    return [
        Job('files', 'hyp', lambda: S.file_spec(max_segments=6), n=300000),
        Job('short_read_streams', 'hyp', _short_read_files, n=30000),
        Job('extreme_ts', 'hyp', _extreme_ts, n=20000),
        Job('big_files', 'hyp', lambda: S.file_spec(max_segments=12, max_n=300, max_chunks=4, str_max=12), n=40000),
        Job('long_files', 'hyp', _long_file, n=2000),
        Job('wide_files', 'hyp', _wide_file, n=1000),
        Job('compressed_encodings', 'hyp', _compressed, n=40000),
    ]
