"""C02 - Segment metadata inheritance never changes what is read."""
import io

import numpy as np
import itertools

from hypothesis import strategies as st

from vf.harness import Job
from vf import strategies as S
from vf import plans as P
from vf.encode import encode_file
from vf.expect import expected_content
from vf.observe import compare_structure, compare_data
from vf.model import make_path, tsize, str_chunk_bytes

ID = 'C02'
LEVEL = 'exploration'
RULE = ("A logical history (per segment: ordered active channels with index, chunk count, data, property updates, "
        "listed no-data objects) is generated; vf/plans.py (reference model of the TDMS inheritance rules) lists every "
        "valid encoding of each segment (metadata dropped / new-object-list with full|same / carried-over list with "
        "unlisted|same|full|nodata and appended newcomers). EXHAUSTIVE job: all histories of 2 segments (thorough: 3) "
        "x 2 channels x values-per-chunk {1,2} x chunks {1,2} x both orders, each with ALL its plans. RANDOM job: "
        "Hypothesis histories of 2-7 segments, 1-4 channels, mixed types, layouts, byte orders, property updates, with "
        "plans drawn per segment. Oracle: eager and lazy reads of the plan-encoded file equal the model (hence the "
        "explicit encoding, which is read too). FORBIDDEN job: 'same' on a never-seen / never-indexed object, first "
        "segment without metadata, data type change -> TdmsFile.read must raise. Non-trivial: the plan differs from "
        "the explicit encoding in at least one segment and the file carries data (or a forbidden file)."
        ' Truncated equivalence: with the same number of raw bytes missing at the end of the file, the compressed '
        'encoding must read like the explicit one (eager and lazy).'
        ' A further job encodes 100-140-segment twin-channel files in compressed form.')
ASSUMPTIONS = [
    "vf/plans.py encodes the TDMS inheritance rules (index persists, list carries over without the flag, metadata-less "
    "segment repeats the previous one) - validated against the pinned reader by construction of this check",
    "'rejected' means any exception from TdmsFile.read; 'same' on a never-indexed object is only required to raise "
    "when raw bytes are present",
]


def read_and_compare(rec, fs_phys, ex, tag):
    from nptdms import TdmsFile
    data, _i, _l = encode_file(fs_phys)
    for mode in ('eager', 'lazy'):
        opener = TdmsFile.read if mode == 'eager' else TdmsFile.open
        ok, tf = rec.guard('%s:%s' % (tag, mode), lambda: opener(io.BytesIO(data), raw_timestamps=True))
        if not ok:
            continue
        try:
            for clause, msg in compare_structure(ex, tf, raw_ts=True):
                rec.violation('%s:%s:%s' % (tag, mode, clause), msg)
            ok, res = rec.guard('%s:%s' % (tag, mode), lambda: compare_data(ex, tf, lambda ch: ch[:], raw_ts=True))
            if ok:
                for clause, msg in res:
                    rec.violation('%s:%s:%s' % (tag, mode, clause), msg)
        finally:
            tf.close()


def check(case, rec):
    """case = {'fs': logical file, 'picks': [k per segment]}"""
    fs = case['fs']
    picks = case['picks']
    ex = expected_content(fs)

    def pick(i, alts):
        return P.nth_plan(alts, picks[i])
    phys, plans = P.encode_with_plans(fs, pick)
    has_data = any(s.get('nchunks', 0) > 0 and s.get('active') for s in fs['segments'])
    differs = any(not P.is_explicit(pl, seg) for pl, seg in zip(plans, fs['segments']))
    rec.nontrivial(has_data and differs)
    rec.label(*S.spec_classes(phys))
    for pl in plans:
        if not pl['meta']:
            rec.label('plan:no_metadata')
        else:
            rec.label('plan:newlist' if pl['newlist'] else 'plan:carried_list')
            for (_p, h) in pl['headers']:
                rec.label('hdr:' + h)
    if case.get('check_explicit', True):
        read_and_compare(rec, fs, ex, 'explicit')
    read_and_compare(rec, phys, ex, 'plan')
    if case.get('trim') is not None and differs:
        truncated_equivalence(rec, fs, phys, case['trim'])


def truncated_equivalence(rec, fs, phys, trim):
    """the same raw bytes missing at the end of the file (a writer that died): the compressed encoding must still read like
    the explicit one - the metadata encodings describe the same layout, whatever amount of raw data follows"""
    from nptdms import TdmsFile
    from vf.observe import le_bytes, raw_ts_pairs
    last = fs['segments'][-1]
    if not last.get('nchunks') or any(t == 'str' for (_p, t, _n) in last.get('active') or []):
        return
    blobs = {}
    for tag, spec in (('explicit', fs), ('plan', phys)):
        data, _i, lay = encode_file(spec)
        raw = lay[-1]['end'] - lay[-1]['data_pos']
        if raw < 2:
            return
        blobs[tag] = data[:len(data) - (1 + trim % (raw - 1))]
    rec.label('truncated_equivalence')

    def snap(blob, mode):
        opener = TdmsFile.read if mode == 'eager' else TdmsFile.open
        tf = opener(io.BytesIO(blob), raw_timestamps=True)
        try:
            out = {}
            for g in tf.groups():
                for ch in g.channels():
                    d = ch[:]
                    if len(d) == 0:
                        out[ch.path] = b''
                    elif hasattr(d, 'dtype') and d.dtype.names:
                        out[ch.path] = repr(raw_ts_pairs(d)).encode()
                    elif np.asarray(d).dtype == object:
                        out[ch.path] = repr(list(d)).encode()
                    else:
                        out[ch.path] = le_bytes(np.asarray(d))
            return out
        finally:
            tf.close()
    for mode in ('eager', 'lazy'):
        try:
            want = snap(blobs['explicit'], mode)
        except Exception:       # noqa  reading the cut explicit file is C06's business
            return
        ok, got = rec.guard('truncated:plan:%s' % mode, lambda: snap(blobs['plan'], mode))
        if ok and got != want:
            bad = [p for p in want if got.get(p) != want[p]][:1] or ['(objects differ)']
            rec.violation('truncated:plan:%s:values' % mode, 'with the same %d raw bytes missing at the end of the file, %s reads '
                          '%d bytes of values in the compressed encoding but %d in the explicit one' % (
                              len(encode_file(fs)[0]) - len(blobs['explicit']), bad[0],
                              len(got.get(bad[0]) or b''), len(want.get(bad[0]) or b'')))


# ---------------------------------------------------------------------------------------------
# exhaustive small domain

CH = [("/'g'/'A'", 'i32', 0), ("/'g'/'B'", 'f64', 1)]


def _seg_states():
    """all (ordered active [(chan, n)], nchunks) of one segment over 2 channels, n in {1,2}, chunks in {1,2}"""
    out = [((), 0)]
    for order in ([0], [1], [0, 1], [1, 0]):
        for ns in itertools.product([1, 2], repeat=len(order)):
            for nch in (1, 2):
                out.append((tuple(zip(order, ns)), nch))
    return out


def _build_logical(states):
    counters = {}
    segs = []
    for (act, nch) in states:
        entries = []
        active = []
        data = {}
        for (ci, n) in act:
            p, t, tag = CH[ci]
            chunks = []
            for _k in range(nch):
                cnt = counters.get(p, 0)
                chunks.append(b''.join(S.unique_value(t, tag, cnt + i) for i in range(n)))
                counters[p] = cnt + n
            entries.append({'path': p, 'hdr': 'full', 'type': t, 'n': n})
            active.append([p, t, n])
            data[p] = chunks
        segs.append({'be': False, 'interleaved': False, 'version': 4713, 'meta': True, 'newlist': True,
                     'entries': entries, 'active': active, 'nchunks': nch if act else 0, 'data': data})
    return {'segments': segs}


def enum_cases(nseg):
    def fn(shard, nshards):
        states = _seg_states()
        idx = 0
        for combo in itertools.product(states, repeat=nseg):
            idx += 1
            if idx % nshards != shard:
                continue
            fs = _build_logical(combo)
            # all plan combinations
            state = P.State()
            alts_per_seg = []
            # plans of later segments depend on earlier choices: depth-first enumeration
            yield from _dfs(fs, 0, P.State(), [])
    return fn


def _dfs(fs, i, state, picks):
    if i == len(fs['segments']):
        yield {'fs': fs, 'picks': list(picks), 'check_explicit': all(k == 0 for k in picks)}
        return
    seg = fs['segments'][i]
    alts = P.segment_choices(state, seg, first=(i == 0))
    total = P.count_plans(alts)
    for k in range(total):
        plan = P.nth_plan(alts, k)
        _phys, nxt = P.apply_plan(state, seg, plan)
        picks.append(k)
        yield from _dfs(fs, i + 1, nxt, picks)
        picks.pop()


# ---------------------------------------------------------------------------------------------
# random histories biased towards re-usable indexes

@st.composite
def history(draw, max_segments=7, max_channels=4):
    nch = draw(st.integers(1, max_channels))
    types = draw(st.lists(st.sampled_from(['i8', 'i16', 'i32', 'u64', 'f32', 'f64', 'str', 'bool', 'ts', 'c64']),
                          min_size=nch, max_size=nch))
    chans = [(make_path('g%d' % (i % 2), 'c%d' % i), types[i], i, draw(st.integers(0, 3))) for i in range(nch)]
    extra = ['/', make_path('g0'), make_path('g1'), make_path('g0', 'nodata_only')]
    nseg = draw(st.integers(2, max_segments))
    counters = {}
    segs = []
    prev_act = None
    for si in range(nseg):
        r = draw(st.integers(0, 9))
        if prev_act is not None and r < 5:
            act = list(prev_act)                      # same objects, same order, same indexes
        elif prev_act is not None and r < 7 and prev_act:
            act = list(prev_act)
            k = draw(st.integers(0, len(act) - 1))
            if draw(st.booleans()):
                act.pop(k)                            # one channel stops
            else:
                c, n = act[k]
                act[k] = (c, draw(st.integers(0, 3)))  # one channel changes its index
            missing = [c for c in chans if c not in [a[0] for a in act]]
            if missing and draw(st.booleans()):
                c = draw(st.sampled_from(missing))
                act.append((c, c[3]))                 # a channel (re)joins with its usual length
        else:
            sel = draw(st.lists(st.sampled_from(chans), unique=True, max_size=nch))
            act = [(c, c[3] if draw(st.integers(0, 3)) else draw(st.integers(0, 3))) for c in sel]
        inter = draw(st.integers(0, 5)) == 0
        if inter:
            act = [(c, n) for (c, n) in act if c[1] != 'str']
            if act:
                n0 = act[0][1]
                act = [(c, n0) for (c, _n) in act]
        nchunks = draw(st.integers(0, 3)) if act else 0
        entries, active, data = [], [], {}
        total_bytes = 0
        for (c, n) in act:
            p, t, tag, _d = c
            chunks = []
            if t == 'str':
                for _k in range(max(nchunks, 1)):
                    cnt = counters.get(p, 0)
                    chunks.append([S.unique_string(tag, (cnt + i) % 10, 0)[:6].ljust(6, '_') for i in range(n)])
                    if _k < nchunks:
                        counters[p] = cnt + n
                total = str_chunk_bytes(chunks[0]) if n else 0
                ent = {'path': p, 'hdr': 'full', 'type': t, 'n': n, 'total': total}
                total_bytes += total
                chunks = chunks[:nchunks]
            else:
                for _k in range(nchunks):
                    cnt = counters.get(p, 0)
                    chunks.append(b''.join(S.unique_value(t, tag, cnt + i) for i in range(n)))
                    counters[p] = cnt + n
                ent = {'path': p, 'hdr': 'full', 'type': t, 'n': n}
                total_bytes += n * tsize(t)
            entries.append(ent)
            active.append([p, t, n])
            data[p] = chunks
        if total_bytes == 0:
            nchunks = 0
            for p in data:
                data[p] = []
        # listed no-data objects and property updates (sparse, so that plans without metadata stay possible)
        if draw(st.integers(0, 3)) == 0:
            pool = extra + [c[0] for c in chans if c[0] not in data]
            for p in draw(st.lists(st.sampled_from(pool), max_size=2, unique=True)):
                entries.insert(draw(st.integers(0, len(entries))), {'path': p, 'hdr': 'nodata'})
        if draw(st.integers(0, 3)) == 0 and entries:
            ent = entries[draw(st.integers(0, len(entries) - 1))]
            ent['props'] = draw(S.prop_list(max_props=2, names=['p0', 'p1', 'unit']))
        segs.append({'be': draw(st.integers(0, 3)) == 0, 'interleaved': inter, 'version': 4713, 'meta': True,
                     'newlist': True, 'entries': entries, 'active': active, 'nchunks': nchunks, 'data': data})
        prev_act = act
    picks = draw(st.lists(st.integers(0, 10 ** 6), min_size=nseg, max_size=nseg))
    return {'fs': {'segments': segs}, 'picks': picks, 'trim': draw(st.one_of(st.none(), st.integers(0, 10 ** 6)))}


# ---------------------------------------------------------------------------------------------
# forbidden encodings

def check_forbidden(case, rec):
    from nptdms import TdmsFile
    fs = case['fs']
    rec.nontrivial(True)
    rec.label('forbidden:' + case['kind'])
    data, _i, _l = encode_file(fs)
    try:
        tf = TdmsFile.read(io.BytesIO(data))
    except Exception:       # noqa  rejection = any exception
        return
    lens = {}
    for g in tf.groups():
        for ch in g.channels():
            lens[ch.path] = len(ch)
    rec.violation('forbidden_accepted:' + case['kind'],
                  'forbidden encoding (%s) was read without error; channel lengths %r' % (case['kind'], lens))


@st.composite
def forbidden(draw):
    kind = draw(st.sampled_from(['same_never_seen', 'same_never_indexed', 'first_without_metadata', 'type_change']))
    base = draw(history(max_segments=4, max_channels=3))
    fs = base['fs']
    segs = fs['segments']
    victim = make_path('g0', 'victim')
    if kind == 'first_without_metadata':
        seg = dict(segs[0])
        seg['meta'] = False
        seg['entries'] = []
        return {'kind': kind, 'fs': {'segments': [seg] + segs[1:]}}
    if kind == 'same_never_seen':
        k = draw(st.integers(0, len(segs) - 1))
        seg = dict(segs[k])
        seg['entries'] = list(seg['entries']) + [{'path': victim, 'hdr': 'same'}]
        return {'kind': kind, 'fs': {'segments': segs[:k] + [seg] + segs[k + 1:]}}
    if kind == 'same_never_indexed':
        # the object is first listed without data, later re-activated with 'same'; raw bytes are present
        first = dict(segs[0])
        first['entries'] = list(first['entries']) + [{'path': victim, 'hdr': 'nodata'}]
        k = draw(st.integers(1, len(segs) - 1)) if len(segs) > 1 else None
        bad = {'be': False, 'interleaved': False, 'version': 4713, 'meta': True, 'newlist': draw(st.booleans()),
               'entries': [{'path': victim, 'hdr': 'same'},
                           {'path': make_path('g0', 'other'), 'hdr': 'full', 'type': 'i32', 'n': 2}],
               'active': [[make_path('g0', 'other'), 'i32', 2]], 'nchunks': 1,
               'data': {make_path('g0', 'other'): [b'\x01\x00\x00\x00\x02\x00\x00\x00']}}
        return {'kind': kind, 'fs': {'segments': [first] + segs[1:] + [bad]}}
    # type_change: a later segment gives a channel a full index with another data type
    typed = [(si, a) for si, s in enumerate(segs) for a in s['active']]
    if not typed:
        # make one
        p = make_path('g0', 'tc')
        s0 = {'be': False, 'interleaved': False, 'version': 4713, 'meta': True, 'newlist': True,
              'entries': [{'path': p, 'hdr': 'full', 'type': 'i32', 'n': 1}], 'active': [[p, 'i32', 1]],
              'nchunks': 1, 'data': {p: [b'\x01\x00\x00\x00']}}
        segs = [s0]
        typed = [(0, [p, 'i32', 1])]
    si, (p, t, n) = typed[draw(st.integers(0, len(typed) - 1))]
    t2 = draw(st.sampled_from([x for x in ['i32', 'f64', 'u8', 'i16', 'f32', 'ts'] if x != t and
                               not (t == 'f32u' and x == 'f32')]))
    n2 = draw(st.integers(1, 3))
    bad = {'be': False, 'interleaved': False, 'version': 4713, 'meta': True, 'newlist': draw(st.booleans()),
           'entries': [{'path': p, 'hdr': 'full', 'type': t2, 'n': n2}], 'active': [[p, t2, n2]], 'nchunks': 1,
           'data': {p: [bytes(range(1, 1 + n2 * tsize(t2)))]}}
    return {'kind': kind, 'fs': {'segments': segs + [bad]}}


@st.composite
def long_history(draw):
    """100+ short segments (twin channels whose per-segment counts agree for ~100 segments) in a compressed encoding"""
    fs = draw(S.twin_long_file())
    n = len(fs['segments'])
    picks = draw(st.lists(st.integers(0, 10 ** 6), min_size=n, max_size=n))
    return {'fs': fs, 'picks': picks, 'check_explicit': False, 'trim': None}


def jobs(tier):
    if tier == 'quick':
        return [Job('exhaustive_2seg_2ch', 'enum', enum_cases(2), exhaustive=True,
                    note='all histories of 2 segments x 2 channels x n in {1,2} x chunks in {1,2} x both orders, all plans'),
                Job('random_histories', 'hyp', lambda: history(), n=5000),
                Job('long_histories', 'hyp', long_history, n=40, note='100-140 segments, compressed encodings, twin channels'),
                Job('forbidden', 'hyp', forbidden, n=1500, check=check_forbidden)]
    return [Job('exhaustive_3seg_2ch', 'enum', enum_cases(3), exhaustive=True,
                note='all histories of 3 segments x 2 channels x n in {1,2} x chunks in {1,2} x both orders, all plans'),
            Job('random_histories', 'hyp', lambda: history(), n=150000),
            Job('long_histories', 'hyp', long_history, n=1500),
            Job('forbidden', 'hyp', forbidden, n=20000, check=check_forbidden)]
