"""C06 - A file cut short by a crash reads as a prefix of the complete file (fault enumeration)."""
import io

import numpy as np
from hypothesis import strategies as st

from vf.harness import Job, exc_key, describe_exc
from vf import strategies as S
from vf.encode import encode_file
from vf.expect import expected_content
from vf.model import split_path, tsize, chunk_len
from props.C05 import _to_vals

ID = 'C06'
LEVEL = 'fault_enumeration'
RULE = ("Hypothesis draws small files with non-zero position-unique values (1-4 segments, all 17 types, contiguous / "
        "interleaved, multi-chunk, strings, padding, listed no-data objects, property blocks; DAQmx single-buffer files "
        "from the C11 generator), in two variants: explicit next-segment offset and the 0xFFFFFFFFFFFFFFFF marker in "
        "the last lead-in. EVERY cut offset from 4 to len(file) is applied (exhaustive per file) and read eagerly and "
        "lazily: no exception, every channel a prefix of the complete values, at least the values of segments ending at "
        "or before the cut, len == returned, lazy == eager (slice and chunk stream), file_status rule. One evaluation = "
        "one (file, variant, cut) triple; non-trivial = cut strictly inside a segment (not on a segment boundary)."
        ' A sample of the cuts inside raw data is read once more BY PATH next to the complete index file; a further '
        "job re-lists stopped channels as 'no data' ahead of the running ones.")
ASSUMPTIONS = [
    "independent encoder vf/encode.py supplies segment boundaries and data positions",
    "marker variant restricted as the statement says: fixed-width types, strings only in single-chunk segments",
    "how much of the cut segment is recovered beyond the stated lower bound is a statistic, not a violation",
    "file_status rule: incomplete_final_segment <=> cut in [data_position, segment_end) of a segment with non-empty raw "
    "data; marker variant: <=> the marked segment's metadata is retained",
]


def is_prefix(t, part, whole):
    if t == 'str':
        return list(whole[:len(part)]) == list(part)
    return len(part) % tsize(t) == 0 and bytes(whole[:len(part)]) == bytes(part)


def eval_cut(rec, data, ex, lay, cut, marker, fs, by_path=None):
    """by_path = (directory, complete index bytes): the cut data file is read BY PATH with its complete .tdms_index beside it
    (what a crashed LabVIEW run leaves behind) instead of as a stream"""
    from nptdms import TdmsFile
    blob = data[:cut]
    if by_path is not None:
        import os
        path = os.path.join(by_path[0], 'cut.tdms')
        with open(path, 'wb') as f:
            f.write(blob)
        with open(path + '_index', 'wb') as f:
            f.write(by_path[1])
        rec.label('read_by_path_with_complete_index')

    def source():
        return path if by_path is not None else io.BytesIO(blob)
    region = 'boundary'
    seg_of_cut = None
    for i, l in enumerate(lay):
        if l['start'] < cut < l['end'] or (cut == l['end'] and False):
            seg_of_cut = i
            if cut < l['start'] + 28:
                region = 'lead_in'
            elif cut < l['data_pos']:
                region = 'metadata'
            else:
                region = 'raw_data'
    rec.label('region=' + region)
    rec.nontrivial(region != 'boundary')
    # expected incomplete flag
    expect_incomplete = False
    for i, l in enumerate(lay):
        if l['data_pos'] <= cut < l['end']:
            expect_incomplete = True
    if marker:
        last = lay[-1]
        if cut >= last['data_pos']:
            expect_incomplete = True
    # lower bounds
    complete_segments = [i for i, l in enumerate(lay) if l['end'] <= cut]
    results = {}
    for mode in ('eager', 'lazy'):
        try:
            if mode == 'eager':
                tf = TdmsFile.read(source(), raw_timestamps=True)
            else:
                tf = TdmsFile.open(source(), raw_timestamps=True)
        except Exception as e:      # noqa
            rec.violation('no_failure:%s:raised' % mode, 'cut=%d (%s): %s' % (cut, region, describe_exc(e)), key=exc_key(e))
            continue
        try:
            got = {}
            for p in ex.channel_paths():
                eo = ex.objects[p]
                t = eo['type']
                if t == 'daqmx':
                    continue
                g, c = split_path(p)
                if g not in tf or c not in tf[g]:
                    got[p] = None
                    continue
                ch = tf[g][c]
                try:
                    arr = ch[:]
                    if t is None or ch.data_type is None:
                        vals = b'' if t != 'str' else []
                        n = len(arr)
                    else:
                        vals = _to_vals(t, arr)
                        n = len(arr)
                    if mode == 'lazy':
                        parts = [chunk[:] for chunk in ch.data_chunks()]
                        cat = [] if t == 'str' else b''
                        for x in parts:
                            if len(x):
                                v = _to_vals(t, x)
                                cat = cat + v
                        if t is not None and ch.data_type is not None and cat != vals:
                            rec.violation('lazy_chunks', 'cut=%d %s: chunk stream differs from [:]' % (cut, p))
                except Exception as e:      # noqa
                    rec.violation('no_failure:%s:raised' % mode, 'cut=%d (%s) reading %s: %s' % (
                        cut, region, p, describe_exc(e)), key=exc_key(e))
                    continue
                got[p] = vals
                whole = ex.values(p)
                if t is not None and not is_prefix(t, vals, whole):
                    rec.violation('prefix:' + mode, 'cut=%d (%s) %s: returned values are not a prefix of the complete '
                                  'channel (%d returned)' % (cut, region, p, n))
                lower = sum(cnt for (s, k, pos, cnt) in ex.chunk_table(p) if s in complete_segments)
                if n < lower:
                    rec.violation('lower_bound:' + mode, 'cut=%d (%s) %s: %d values, but %d lie in segments wholly '
                                  'before the cut' % (cut, region, p, n, lower))
                if len(ch) != n:
                    rec.violation('len:' + mode, 'cut=%d %s: len(channel)=%d but %d values returned' % (cut, p, len(ch), n))
                if seg_of_cut is not None and region == 'raw_data':
                    inseg = sum(cnt for (s, k, pos, cnt) in ex.chunk_table(p) if s == seg_of_cut)
                    if inseg:
                        rec.stat('recovered_values_in_cut_segment', max(0, n - lower))
                        rec.stat('values_in_cut_segment', inseg)
            results[mode] = got
            try:
                status = tf.file_status.incomplete_final_segment
                if bool(status) != expect_incomplete:
                    rec.violation('file_status:' + mode, 'cut=%d (%s, marker=%s): incomplete_final_segment=%r, expected %r'
                                  % (cut, region, marker, status, expect_incomplete))
            except Exception as e:      # noqa
                rec.violation('file_status:raised', describe_exc(e), key=exc_key(e))
        finally:
            tf.close()
    if 'eager' in results and 'lazy' in results:
        for p, v in results['eager'].items():
            lv = results['lazy'].get(p)
            if v != lv:
                rec.violation('lazy_eq_eager', 'cut=%d (%s) %s: lazy and eager reads differ (%s vs %s values)' % (
                    cut, region, p, 'missing' if lv is None else len(lv), 'missing' if v is None else len(v)))


def marker_ok(fs):
    last = fs['segments'][-1]
    for (p, t, n) in last.get('active') or []:
        if t == 'str' and last.get('nchunks', 0) > 1:
            return False
    return True


def check(case, rec):
    """case = {'fs':..., 'marker': bool, 'cut': int|None}; cut None = all cuts (each counted as an evaluation)"""
    fs = case['fs']
    marker = bool(case.get('marker'))
    if case.get('picks') is not None:
        # same logical content, encoded with inherited metadata (carried-over lists, 'same' indexes, metadata-less segments)
        from vf import plans as P
        ex_logical = expected_content(fs)
        fs, _plans = P.encode_with_plans(fs, lambda i, alts: P.nth_plan(alts, case['picks'][i]))
    else:
        ex_logical = None
    if marker:
        fs = dict(fs)
        segs = list(fs['segments'])
        segs[-1] = dict(segs[-1], marker=True)
        fs['segments'] = segs
    data, index, lay = encode_file(fs, with_index=True)
    if fs.get('_kind') == 'daqmx' or case['fs'].get('_kind') == 'daqmx':
        from props.C03 import DaqEx
        ex = DaqEx(fs)
    else:
        ex = ex_logical if ex_logical is not None else expected_content(fs)
    cuts = [case['cut']] if case.get('cut') is not None else range(4, len(data) + 1)
    if case.get('cut') is None and case.get('last_segments_only'):
        cuts = range(lay[-case['last_segments_only']]['start'], len(data) + 1)
    classes = ['daqmx'] if case['fs'].get('_kind') == 'daqmx' else S.spec_classes(fs)
    first = True
    for cut in cuts:
        if not first:
            rec.end()
        rec.begin({'fs': case['fs'], 'marker': marker, 'cut': cut, 'picks': case.get('picks')})
        if case.get('last_segments_only'):
            rec.label('long_twin_file')
        first = False
        rec.label(*classes)
        rec.label('marker' if marker else 'explicit')
        eval_cut(rec, data, ex, lay, cut, marker, fs)
        # a sample of the cuts inside raw data once more, read by path next to the complete index file
        if cut % 4 == 1 and any(l['data_pos'] < cut < l['end'] for l in lay):
            from vf.files import scratch_dir
            with scratch_dir() as d:
                eval_cut(rec, data, ex, lay, cut, marker, fs, by_path=(d, index))


@st.composite
def cases(draw, **kw):
    opts = dict(min_segments=1, max_segments=4, max_channels=3, max_n=3, max_chunks=3, values='unique',
                names='simple', max_groups=2, str_max=3)
    opts.update(kw)
    fs = draw(S.file_spec(**opts))
    marker = draw(st.booleans()) and marker_ok(fs)
    return {'fs': fs, 'marker': marker, 'cut': None}


@st.composite
def daqmx_cases(draw):
    from vf.daqmx import daqmx_file
    fs = draw(daqmx_file(max_segments=3, max_len=3, max_chunks=3, max_channels=3, max_width=8))
    return {'fs': dict(fs, _kind='daqmx'), 'marker': draw(st.booleans()), 'cut': None}


@st.composite
def twin_cases(draw):
    # 100+ segments, channels whose offset tables agree for about a hundred entries; cuts restricted to the last segments
    fs = draw(S.twin_long_file(max_segments=110))
    return {'fs': fs, 'marker': False, 'cut': None, 'last_segments_only': 2}


@st.composite
def plan_cases(draw):
    from props.C02 import history
    h = draw(history(max_segments=4, max_channels=3))
    marker = draw(st.booleans()) and marker_ok(h['fs'])
    return {'fs': h['fs'], 'picks': h['picks'], 'marker': marker, 'cut': None}


def jobs(tier):
    if tier == 'quick':
        return [Job('files_x_all_cuts', 'hyp', lambda: cases(), n=200, exhaustive=False,
                    note='every cut offset 4..len(file) of each generated file'),
                Job('data_heavy_files_x_all_cuts', 'hyp',
                    lambda: cases(props=False, nodata_entries=False, max_n=5, max_chunks=4), n=200,
                    note='every cut offset 4..len(file) of each generated file'),
                Job('stopped_channels_x_all_cuts', 'hyp',
                    lambda: cases(props=False, stopped_first=True, interleaved=False, max_n=4, max_chunks=3, min_segments=2,
                                  types=['i8', 'i16', 'i32', 'f64', 'ts', 'u64']), n=100,
                    note='channels that stopped are re-listed as "no data" ahead of the running ones; every cut offset'),
                Job('long_twin_files_x_cuts_in_last_segments', 'hyp', twin_cases, n=16,
                    note='every cut offset inside the last two segments of 100+ segment files'),
                Job('daqmx_files_x_all_cuts', 'hyp', daqmx_cases, n=120,
                    note='every cut offset of DAQmx files (scaled data = highest-numbered scaler)'),
                Job('inherited_metadata_files_x_all_cuts', 'hyp', plan_cases, n=200,
                    note='every cut offset of files encoded with carried-over object lists / metadata-less segments')]
    return [Job('files_x_all_cuts', 'hyp', lambda: cases(), n=6000,
                note='every cut offset 4..len(file) of each generated file'),
            Job('data_heavy_files_x_all_cuts', 'hyp',
                lambda: cases(props=False, nodata_entries=False, max_n=5, max_chunks=4), n=6000,
                note='every cut offset 4..len(file) of each generated file'),
            Job('stopped_channels_x_all_cuts', 'hyp',
                lambda: cases(props=False, stopped_first=True, interleaved=False, max_n=4, max_chunks=3, min_segments=2,
                              types=['i8', 'i16', 'i32', 'f64', 'ts', 'u64']), n=3000,
                note='channels that stopped are re-listed as "no data" ahead of the running ones; every cut offset'),
            Job('long_twin_files_x_cuts_in_last_segments', 'hyp', twin_cases, n=400,
                note='every cut offset inside the last two segments of 100+ segment files'),
            Job('daqmx_files_x_all_cuts', 'hyp', daqmx_cases, n=4000,
                note='every cut offset of DAQmx files (scaled data = highest-numbered scaler)'),
            Job('inherited_metadata_files_x_all_cuts', 'hyp', plan_cases, n=6000,
                note='every cut offset of files encoded with carried-over object lists / metadata-less segments'),
            Job('larger_files_x_all_cuts', 'hyp', lambda: cases(max_segments=5, max_n=6, max_chunks=4, max_channels=4),
                n=1500, note='every cut offset of each generated file')]
