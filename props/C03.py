"""C03 - Every way of obtaining a channel's data gives the same data."""
import io
import os

import numpy as np
from hypothesis import strategies as st

from vf.harness import Job
from vf import strategies as S
from vf.encode import encode_file
from vf.expect import expected_content
from vf.observe import compare_values, compare_scalars, dtype_eq
from vf.model import split_path, tsize, chunk_len
from vf.files import scratch_file

ID = 'C03'
LEVEL = 'exploration'
RULE = ("Hypothesis draws a logical file (C01 generator; plus DAQmx and scaled files from the C11/C13 generators) and a "
        "configuration {memmap_dir, raw_timestamps, path / pathlib.Path / BytesIO / stream whose readinto() delivers 1-64 bytes per call}; every access path (eager [:], [...], .data, "
        "read_data(), iteration, [i] for every i, raw_data, read_data(scaled=False); lazy [:], [...], read_data(), "
        "iteration, [i], channel.data_chunks() and TdmsFile.data_chunks() concatenations with their offsets) is "
        "compared with the model. Non-trivial: some channel's data spreads over >=2 chunks or segments (>=4 access "
        "paths are always compared); distinct by SHA-1 of the case."
        ' A further job gives a NON-final segment an incomplete last chunk (lead-in states the shortened size) and '
        'demands, without a content model, that eager / lazy full reads, windows, integer indices and both chunk '
        'streams agree with one another.'
        ' File-level chunks are also inspected only after the iteration has ended (offsets, values), chunk objects '
        'through iteration / integer index / part slices, paths also as pathlib.Path, and a job reads a cut data file '
        'by path next to its complete index file against the same bytes read as a stream.'
        ' Raw-data-only continuation segments (either byte order) are appended to some files.')
ASSUMPTIONS = [
    "independent encoder vf/encode.py",
    "paths documented as unavailable in a mode (.data on a lazily opened non-empty channel, data_chunks() after an "
    "eager read) are not exercised; only int indices",
    "chunk boundaries of data_chunks() are not asserted, only concatenation and offsets",
]


def _nontrivial(ex):
    for p in ex.channel_paths():
        if len([1 for c in ex.chunk_table(p) if c[3] > 0]) >= 2:
            return True
    return False


def _viol(rec, clause, msgs):
    for m in msgs:
        rec.violation(clause, m)


def chunk_api_msgs(t, vals, chunk, start, raw_ts):
    """the array-like interface of a chunk object (iteration, integer index, part slice) against the model values at
    channel positions start .."""
    from props.C04 import slice_vals
    n = len(chunk)
    if n == 0:
        return []
    out = []
    items = list(iter(chunk))
    idx = list(range(start, start + len(items)))
    out += compare_scalars(t, vals, items, idx, 'iteration over chunk at offset %d' % start, raw_ts)
    out += compare_scalars(t, vals, [chunk[0], chunk[-1]], [start, start + n - 1], 'chunk[0] / chunk[-1] at offset %d' % start, raw_ts)
    if n >= 2:
        out += compare_values(t, slice_vals(t, vals, slice(start + 1, start + n)), chunk[1:], 'chunk[1:] at offset %d' % start, raw_ts)
    return out[:1]


def check_channel_paths(rec, ex, tf_eager, tf_lazy, raw_ts, max_index=40):
    for p in ex.channel_paths():
        eo = ex.objects[p]
        t = eo['type']
        if t == 'daqmx':
            continue
        g, c = split_path(p)
        vals = ex.values(p)
        n = ex.length(p)
        idxs = list(range(n)) if n <= max_index else list(range(0, n, max(1, n // max_index)))
        skip_unscaled = bool(eo.get('skip_unscaled'))
        if tf_eager is not None:
            ch = tf_eager[g][c]
            paths = [
                ('eager[:]', lambda: ch[:]), ('eager[...]', lambda: ch[...]), ('eager.data', lambda: ch.data),
                ('eager.read_data()', lambda: ch.read_data()),
            ]
            if not skip_unscaled:
                paths += [('eager.read_data(scaled=False)', lambda: ch.read_data(scaled=False)),
                          ('eager.raw_data', lambda: ch.raw_data)]
            for name, fn in paths:
                ok, got = rec.guard('access:' + name, fn)
                if ok:
                    _viol(rec, 'agree:' + name, compare_values(t, vals, got, '%s %s' % (name, p), raw_ts))
            ok, got = rec.guard('access:eager.iter', lambda: list(iter(ch)))
            if ok:
                _viol(rec, 'agree:eager.iter', compare_scalars(t, vals, got, None, 'iter %s' % p, raw_ts))
            ok, got = rec.guard('access:eager[i]', lambda: [ch[i] for i in idxs])
            if ok:
                _viol(rec, 'agree:eager[i]', compare_scalars(t, vals, got, idxs, 'eager[i] %s' % p, raw_ts))
        if tf_lazy is not None:
            ch = tf_lazy[g][c]
            paths = [
                ('lazy[:]', lambda: ch[:]), ('lazy[...]', lambda: ch[...]),
                ('lazy.read_data()', lambda: ch.read_data()),
            ]
            if not skip_unscaled:
                paths.append(('lazy.read_data(scaled=False)', lambda: ch.read_data(scaled=False)))
            for name, fn in paths:
                ok, got = rec.guard('access:' + name, fn)
                if ok:
                    _viol(rec, 'agree:' + name, compare_values(t, vals, got, '%s %s' % (name, p), raw_ts))
            ok, got = rec.guard('access:lazy.iter', lambda: list(iter(ch)))
            if ok:
                _viol(rec, 'agree:lazy.iter', compare_scalars(t, vals, got, None, 'lazy iter %s' % p, raw_ts))
            ok, got = rec.guard('access:lazy[i]', lambda: [ch[i] for i in idxs])
            if ok:
                _viol(rec, 'agree:lazy[i]', compare_scalars(t, vals, got, idxs, 'lazy[i] %s' % p, raw_ts))
            # the same indices from the end of the channel backwards, and addressed from the end
            back = list(reversed(idxs))
            ok, got = rec.guard('access:lazy[i] descending', lambda: [ch[i] for i in back])
            if ok:
                _viol(rec, 'agree:lazy[i] descending', compare_scalars(t, vals, got, back, 'lazy[i] descending %s' % p, raw_ts))
            if n:
                ok, got = rec.guard('access:lazy[-i]', lambda: [ch[i - n] for i in idxs])
                if ok:
                    _viol(rec, 'agree:lazy[-i]', compare_scalars(t, vals, got, idxs, 'lazy[i-len] %s' % p, raw_ts))
            # channel-level chunk stream

            def chan_chunks():
                parts = []
                running = 0
                bad = []
                for chunk in ch.data_chunks():
                    if chunk.offset != running:
                        bad.append('chunk offset %d, running count %d' % (chunk.offset, running))
                    d = chunk[:]
                    if len(d) != len(chunk):
                        bad.append('len(chunk)=%d but chunk[:] has %d values' % (len(chunk), len(d)))
                    bad.extend(chunk_api_msgs(t, vals, chunk, running, raw_ts))
                    parts.append(d)
                    running += len(d)
                return parts, bad
            ok, got = rec.guard('access:channel.data_chunks', chan_chunks)
            if ok:
                parts, bad = got
                _viol(rec, 'chunk_offsets:channel', ['%s: %s' % (p, b) for b in bad[:1]])
                _viol(rec, 'agree:channel.data_chunks', compare_parts(t, vals, parts, 'channel chunks %s' % p, raw_ts))


def compare_parts(t, vals, parts, where, raw_ts):
    """compare the concatenation of chunk arrays with expected values"""
    if t is None:
        tot = sum(len(x) for x in parts)
        return [] if tot == 0 else ['%s: %d values for channel without data type' % (where, tot)]
    if t == 'str':
        flat = []
        for x in parts:
            flat.extend(list(x))
        return compare_values(t, vals, np.array(flat + [None], dtype=object)[:-1], where, raw_ts)
    if t == 'ts':
        if raw_ts:
            from vf.observe import raw_ts_pairs
            from vf.model import ts_pairs
            pairs = []
            exp = ts_pairs(vals)
            for x in parts:
                if len(x):
                    start = len(pairs)
                    pairs.extend(raw_ts_pairs(x))
                    # single items of the chunk's array and of arrays derived from it
                    for label, item, want in (('[0]', x[0], exp[start:start + 1]), ('[:][0]', x[:][0], exp[start:start + 1]),
                                              ('.copy()[-1]', x.copy()[-1], exp[start + len(x) - 1:start + len(x)]),
                                              ('[::-1][0]', x[::-1][0], exp[start + len(x) - 1:start + len(x)])):
                        if want and (getattr(item, 'seconds', None), getattr(item, 'second_fractions', None)) != want[0]:
                            return ['%s: item %s of a raw timestamp chunk is %r, expected TdmsTimestamp%r' % (
                                where, label, item, want[0])]
            return [] if pairs == exp else ['%s: raw timestamps differ: got %r expected %r' % (where, pairs[:3], exp[:3])]
        nonempty = [np.asarray(x) for x in parts if len(x)]
        for x in nonempty:
            if x.dtype != np.dtype('<M8[us]'):
                return ['%s: chunk dtype %s, expected datetime64[us]' % (where, x.dtype)]
        cat = np.concatenate(nonempty) if nonempty else np.empty((0,), dtype='<M8[us]')
        return compare_values(t, vals, cat, where, raw_ts)
    from vf.observe import le_bytes
    from vf.model import np_dtype
    bs = []
    for x in parts:
        x = np.asarray(x)
        if len(x) and not dtype_eq(x.dtype, np_dtype(t)):
            return ['%s: chunk dtype %s, expected %s' % (where, x.dtype, np_dtype(t))]
        if len(x):
            bs.append(le_bytes(x))
    got = b''.join(bs)
    if got != bytes(vals):
        return ['%s: concatenation differs: got %s expected %s' % (where, got[:32].hex(), bytes(vals)[:32].hex())]
    return []


def check_file_chunks(rec, ex, tf_lazy, raw_ts):
    chans = [p for p in ex.channel_paths() if ex.objects[p]['type'] != 'daqmx']

    def run():
        parts = {p: [] for p in chans}
        running = {p: 0 for p in chans}
        bad = []
        want_names = [(g.name, [c.name for c in g.channels()]) for g in tf_lazy.groups()]
        for chunk in tf_lazy.data_chunks():
            names = [(g.name, [c.name for c in g.channels()]) for g in chunk.groups()]
            if names != want_names:
                bad.append('file chunk lists groups / channels %r, the file lists %r' % (names, want_names))
            for p in chans:
                g, c = split_path(p)
                cc = chunk[g][c]
                if cc.offset != running[p]:
                    bad.append('%s: file chunk offset %d, running count %d' % (p, cc.offset, running[p]))
                d = cc[:]
                if len(d) != len(cc):
                    bad.append('%s: len(chunk)=%d but chunk[:] has %d' % (p, len(cc), len(d)))
                parts[p].append(d)
                running[p] += len(d)
        return parts, bad
    ok, got = rec.guard('access:file.data_chunks', run)
    if not ok:
        return
    parts, bad = got
    _viol(rec, 'chunk_offsets:file', bad[:1])
    for p in chans:
        _viol(rec, 'agree:file.data_chunks',
              compare_parts(ex.objects[p]['type'], ex.values(p), parts[p], 'file chunks %s' % p, raw_ts))

    # the same stream, but every chunk object is only looked at after the iterator has been exhausted
    def run_collected():
        chunks = list(tf_lazy.data_chunks())
        parts = {p: [] for p in chans}
        running = {p: 0 for p in chans}
        bad = []
        for k, chunk in enumerate(chunks):
            for p in chans:
                g, c = split_path(p)
                cc = chunk[g][c]
                if cc.offset != running[p]:
                    bad.append('%s: chunk %d inspected after the iteration ended reports offset %d, %d values were delivered '
                               'before it' % (p, k, cc.offset, running[p]))
                d = cc[:]
                parts[p].append(d)
                running[p] += len(d)
        return parts, bad
    ok, got = rec.guard('access:file.data_chunks(collected)', run_collected)
    if ok:
        parts, bad = got
        _viol(rec, 'chunk_offsets:file_collected', bad[:1])
        for p in chans:
            _viol(rec, 'agree:file.data_chunks(collected)',
                  compare_parts(ex.objects[p]['type'], ex.values(p), parts[p], 'collected file chunks %s' % p, raw_ts))


class BlockStream(io.BytesIO):
    """A seekable binary stream whose readinto() delivers at most `block` bytes per call, as the io contract allows
    (raw streams, sockets, pipes, compressed files); read(n) is complete, so metadata parsing is unaffected."""

    def __init__(self, data, block):
        io.BytesIO.__init__(self, data)
        self._block = block

    def readinto(self, b):
        view = memoryview(b).cast('B')          # any writable buffer: the library passes NumPy arrays
        got = io.BytesIO.read(self, min(len(view), self._block))
        view[:len(got)] = got
        return len(got)


def check(case, rec):
    from nptdms import TdmsFile
    if 'graph' in case:
        return check_scaled(case, rec)
    if 'short_mid' in case:
        return check_short_mid(case, rec)
    if 'cut_with_index' in case:
        return check_cut_with_index(case, rec)
    if 'raw_ts' not in case:
        return check_daqmx(case, rec)
    fs = case['fs']
    raw_ts = case['raw_ts']
    data, _i, _l = encode_file(fs)
    ex = expected_content(fs)
    rec.nontrivial(_nontrivial(ex))
    rec.label(*S.spec_classes(fs))
    rec.label('memmap' if case['memmap'] else 'in_memory', 'raw_ts' if raw_ts else 'datetime64',
              'short_readinto_stream' if case.get('block') else
              ('pathlib.Path' if case['as_path'] == 'pathlib' else 'path') if case['as_path'] else 'stream')
    with scratch_file(data, as_path=case['as_path']) as (src, tmpdir):
        mm = tmpdir if case['memmap'] else None

        def source():
            if case['as_path'] == 'pathlib':
                import pathlib
                return pathlib.Path(src)            # documented: "a string or pathlib.Path, or an already opened file"
            if case.get('block'):
                return BlockStream(data, case['block'])
            return src if case['as_path'] else io.BytesIO(data)
        ok, tf_e = rec.guard('read', lambda: TdmsFile.read(source(), raw_timestamps=raw_ts, memmap_dir=mm))
        if not ok:
            tf_e = None
        ok, tf_l = rec.guard('open', lambda: TdmsFile.open(source(), raw_timestamps=raw_ts, memmap_dir=mm))
        if not ok:
            tf_l = None
        try:
            check_channel_paths(rec, ex, tf_e, tf_l, raw_ts)
            if tf_l is not None:
                check_file_chunks(rec, ex, tf_l, raw_ts)
        finally:
            if tf_l is not None:
                tf_l.close()
            del tf_e, tf_l


class DaqEx(object):
    """Expected-like view of a DAQmx file: every channel's scaled data is its highest-numbered (or only) scaler"""

    def __init__(self, fs):
        from vf.daqmx import expected_daqmx
        self.exd = expected_daqmx(fs)
        self.objects = {}
        for p, eo in self.exd.items():
            last = sorted(eo['scalers'])[-1]
            t, vals = eo['scalers'][last]
            self.objects[p] = {'type': t, 'vals': vals, 'len': eo['len'], 'chunks': eo['chunks'],
                               'skip_unscaled': eo['chan_type'] == 'raw', 'scalers': eo['scalers']}

    def channel_paths(self):
        return list(self.objects)

    def values(self, p):
        return self.objects[p]['vals']

    def length(self, p):
        return self.objects[p]['len']

    def chunk_table(self, p):
        out, pos = [], 0
        for (s, k, n) in self.objects[p]['chunks']:
            out.append((s, k, pos, n))
            pos += n
        return out


def check_daqmx(case, rec):
    from nptdms import TdmsFile
    from vf.observe import compare_values
    fs = case['fs']
    data, _i, _l = encode_file(fs)
    ex = DaqEx(fs)
    rec.nontrivial(_nontrivial(ex))
    rec.label('daqmx', 'memmap' if case['memmap'] else 'in_memory', 'path' if case['as_path'] else 'stream')
    with scratch_file(data, as_path=case['as_path']) as (src, tmpdir):
        mm = tmpdir if case['memmap'] else None

        def source():
            if case.get('block'):
                return BlockStream(data, case['block'])
            return src if case['as_path'] else io.BytesIO(data)
        ok, tf_e = rec.guard('read', lambda: TdmsFile.read(source(), memmap_dir=mm))
        if not ok:
            tf_e = None
        ok, tf_l = rec.guard('open', lambda: TdmsFile.open(source(), memmap_dir=mm))
        if not ok:
            tf_l = None
        try:
            check_channel_paths(rec, ex, tf_e, tf_l, False)
            if tf_l is not None:
                check_file_chunks(rec, ex, tf_l, False)
            # unscaled agreement for raw (multi-scaler) channels: raw_scaler_data == read_data(scaled=False), both modes
            for p, eo in ex.objects.items():
                if not eo['skip_unscaled']:
                    continue
                g, c = split_path(p)
                for name, fn in (('eager.raw_scaler_data', lambda: tf_e[g][c].raw_scaler_data),
                                 ('eager.read_data(scaled=False)', lambda: tf_e[g][c].read_data(scaled=False)),
                                 ('lazy.read_data(scaled=False)', lambda: tf_l[g][c].read_data(scaled=False))):
                    if (tf_e if name.startswith('eager') else tf_l) is None:
                        continue
                    ok, d = rec.guard('access:' + name, fn)
                    if not ok:
                        continue
                    if sorted(d.keys()) != sorted(eo['scalers']):
                        rec.violation('agree:' + name, '%s: scaler ids %r expected %r' % (p, sorted(d.keys()), sorted(eo['scalers'])))
                        continue
                    for sid, (t, vals) in eo['scalers'].items():
                        _viol(rec, 'agree:' + name, compare_values(t, vals, d[sid], '%s %s scaler %d' % (name, p, sid)))
        finally:
            if tf_l is not None:
                tf_l.close()
            del tf_e, tf_l


class RefEx(object):
    """Expected-like view whose reference values are the eager full read (differential across access paths)"""

    def __init__(self, path, t, vals, chunks):
        self.objects = {path: {'type': t, 'skip_unscaled': True}}
        self._vals = vals
        self._chunks = chunks

    def channel_paths(self):
        return list(self.objects)

    def values(self, p):
        return self._vals

    def length(self, p):
        from vf.model import tsize
        return len(self._vals) // tsize(self.objects[p]['type'])

    def chunk_table(self, p):
        return self._chunks


DT_TO_T = {'int8': 'i8', 'int16': 'i16', 'int32': 'i32', 'int64': 'i64', 'uint8': 'u8', 'uint16': 'u16', 'uint32': 'u32',
           'uint64': 'u64', 'float32': 'f32', 'float64': 'f64'}


def check_scaled(case, rec):
    """scaled channels (C13 graphs): every access path must equal the eager full read bit for bit; raw paths the file"""
    from nptdms import TdmsFile
    from props.C13 import build_file
    from vf.observe import le_bytes, compare_values
    from vf.model import np_dtype, make_path
    fs, graph = build_file(case)
    data, _i, _l = encode_file(fs)
    t_raw = case['type']
    raw = b''.join(b''.join(c) for c in case['segs'])
    rec.label('scaled_channel', 'raw=' + t_raw)
    ok, tf_e = rec.guard('read', lambda: TdmsFile.read(io.BytesIO(data)))
    if not ok:
        return
    ok, tf_l = rec.guard('open', lambda: TdmsFile.open(io.BytesIO(data)))
    if not ok:
        return
    try:
        ok, ref = rec.guard('access:eager[:]', lambda: np.asarray(tf_e['g']['c'][:]))
        if not ok:
            return
        t = DT_TO_T.get(ref.dtype.newbyteorder('=').name)
        if t is None:
            return
        chunks, pos = [], 0
        for si, cs in enumerate(case['segs']):
            for k, c in enumerate(cs):
                n = len(c) // np_dtype(t_raw).itemsize
                chunks.append((si, k, pos, n))
                pos += n
        rec.nontrivial(len([c for c in chunks if c[3]]) >= 2)
        ex = RefEx(make_path('g', 'c'), t, le_bytes(ref), chunks)
        check_channel_paths(rec, ex, tf_e, tf_l, False)
        check_file_chunks(rec, ex, tf_l, False)
        for name, fn in (('eager.raw_data', lambda: tf_e['g']['c'].raw_data),
                         ('eager.read_data(scaled=False)', lambda: tf_e['g']['c'].read_data(scaled=False)),
                         ('lazy.read_data(scaled=False)', lambda: tf_l['g']['c'].read_data(scaled=False))):
            ok, d = rec.guard('access:' + name, fn)
            if ok:
                _viol(rec, 'agree:' + name, compare_values(t_raw, raw, d, name))
    finally:
        tf_l.close()


@st.composite
def short_mid_cases(draw):
    """a segment that is NOT the last one ends in an incomplete chunk (its lead-in states the shortened size), as after an
    interrupted write that was later appended to; fixed-width types only"""
    fs = draw(S.file_spec(min_segments=2, max_segments=4, max_channels=3, max_n=4, max_chunks=3, props=False, zero_n=False, absent=False,
                          types=['i8', 'i16', 'i32', 'u64', 'f32', 'f64', 'bool', 'ts', 'c64'], values='unique',
                          names='simple', nodata_entries=False))
    return {'fs': fs, 'short_mid': [draw(st.integers(0, 100)), draw(st.integers(0, 10 ** 6))]}


def check_short_mid(case, rec):
    """no model of the shortened content is assumed: every way of obtaining a channel's data must agree with the others"""
    from nptdms import TdmsFile
    from vf.model import tsize, split_path
    from vf.observe import le_bytes, raw_ts_pairs
    fs = case['fs']
    segs = fs['segments']
    k = case['short_mid'][0] % (len(segs) - 1)
    seg = segs[k]
    size = sum(n * tsize(t) for (_p, t, n) in seg.get('active') or []) * seg.get('nchunks', 0)
    if size <= 1:
        return
    trim = 1 + case['short_mid'][1] % (size - 1)
    phys = {'segments': [dict(sg, trim_raw=trim) if i == k else sg for i, sg in enumerate(segs)]}
    data, _i, _l = encode_file(phys)
    rec.nontrivial(True)
    rec.label('short_final_chunk_in_middle_segment', 'interleaved' if seg.get('interleaved') else 'contiguous',
              'chunks=%d' % seg.get('nchunks', 0))

    def norm(a):
        if len(a) == 0:
            return b''
        if hasattr(a, 'dtype') and a.dtype.names:
            import struct
            return b''.join(struct.pack('<qQ', sec, frac) for (sec, frac) in raw_ts_pairs(a))
        return le_bytes(np.asarray(a))
    ok, tf_e = rec.guard('access:TdmsFile.read', lambda: TdmsFile.read(io.BytesIO(data), raw_timestamps=True))
    ok2, tf_l = rec.guard('access:TdmsFile.open', lambda: TdmsFile.open(io.BytesIO(data), raw_timestamps=True))
    if not (ok and ok2):
        return
    try:
        for g in tf_l.groups():
            for chl in g.channels():
                p = chl.path
                gn, cn = split_path(p)
                ok, ref = rec.guard('access:lazy[:]', lambda: chl[:])
                if not ok:
                    continue
                refb = norm(ref)
                n = len(ref)
                if len(chl) != n:
                    rec.violation('agree:len', '%s: len(channel) %d but [:] has %d values' % (p, len(chl), n))
                che = tf_e[gn][cn]
                paths = [('eager[:]', lambda: che[:]), ('eager.data', lambda: che.data), ('lazy.read_data()', lambda: chl.read_data()),
                         ('lazy iteration', lambda: None)]
                for name, fn in paths[:3]:
                    ok, got = rec.guard('access:' + name, fn)
                    if ok and norm(got) != refb:
                        rec.violation('agree:' + name, '%s: %s gives %d values %r, lazy [:] gives %d values %r' % (
                            p, name, len(got), norm(got)[:24].hex(), n, refb[:24].hex()))
                ok, parts = rec.guard('access:channel.data_chunks', lambda: [(c.offset, c[:]) for c in chl.data_chunks()])
                if ok:
                    if b''.join(norm(x) for (_o, x) in parts) != refb:
                        rec.violation('agree:channel.data_chunks', '%s: concatenated chunks differ from lazy [:]' % p)
                    pos = 0
                    for (o, x) in parts:
                        if o != pos:
                            rec.violation('agree:chunk_offset', '%s: chunk offset %d, %d values delivered before' % (p, o, pos))
                            break
                        pos += len(x)
                ok, parts = rec.guard('access:file.data_chunks', lambda: [c[gn][cn][:] for c in tf_l.data_chunks()])
                if ok and b''.join(norm(x) for x in parts) != refb:
                    rec.violation('agree:file.data_chunks', '%s: concatenated file chunks differ from lazy [:]' % p)
                item = len(refb) // n if n else 0
                for o in range(0, min(n, 12) + 1):
                    for l in (1, 2, None):
                        ok, got = rec.guard('access:lazy.read_data(o,l)', lambda: chl.read_data(o, l))
                        if not ok:
                            break
                        want = ref[o:] if l is None else ref[o:o + l]
                        if norm(got) != norm(want):
                            rec.violation('agree:window', '%s: read_data(%d,%r) gives %r, [:][%d:...] is %r' % (
                                p, o, l, norm(got)[:24].hex(), o, norm(want)[:24].hex()))
                            break
                for i in range(min(n, 12)):
                    ok, got = rec.guard('access:lazy[i]', lambda: chl[i])
                    if not ok:
                        break
                    if hasattr(got, 'second_fractions'):
                        same = (got.seconds, got.second_fractions) == raw_ts_pairs(ref[i:i + 1])[0]
                    else:
                        # compared as values: a bool array may hold a non-canonical byte that a scalar cannot show
                        same = bool(np.array_equal(np.asarray([got]), np.asarray(ref[i:i + 1]), equal_nan=True))
                    if not same:
                        rec.violation('agree:index', '%s[%d] = %r differs from [:][%d] = %r' % (p, i, got, i, ref[i]))
                        break
    finally:
        tf_l.close()


@st.composite
def cut_index_cases(draw):
    fs = draw(S.file_spec(min_segments=1, max_segments=4, max_channels=3, max_n=4, max_chunks=3, props=False,
                          types=['i8', 'i16', 'i32', 'u64', 'f32', 'f64', 'bool', 'ts', 'c64'], values='unique',
                          names='simple', nodata_entries=False))
    return {'fs': fs, 'cut_with_index': draw(st.integers(0, 10 ** 6)), 'pathlib': draw(st.booleans())}


def check_cut_with_index(case, rec):
    """a data file cut inside its last segment, with the complete .tdms_index beside it: reading it by path (which uses the
    index) must give what reading the same bytes as a stream (no index) gives, for every access path"""
    from nptdms import TdmsFile
    from vf.observe import le_bytes, raw_ts_pairs
    import struct
    import pathlib
    fs = case['fs']
    data, index, lay = encode_file(fs, with_index=True)
    raw = lay[-1]['end'] - lay[-1]['data_pos']
    if raw < 2:
        return
    blob = data[:lay[-1]['data_pos'] + 1 + case['cut_with_index'] % (raw - 1)]
    rec.nontrivial(True)
    rec.label('cut_file_next_to_complete_index', *S.spec_classes(fs))

    def norm(a):
        if len(a) == 0:
            return b''
        if hasattr(a, 'dtype') and a.dtype.names:
            return b''.join(struct.pack('<qQ', sec, frac) for (sec, frac) in raw_ts_pairs(a))
        return le_bytes(np.asarray(a))

    def snapshot(tf, lazy):
        out = {}
        for g in tf.groups():
            for ch in g.channels():
                d = {'len': len(ch), '[:]': norm(ch[:]), 'read_data': norm(ch.read_data())}
                if lazy:
                    d['chunks'] = b''.join(norm(c[:]) for c in ch.data_chunks())
                    d['file_chunks'] = b''.join(norm(c[g.name][ch.name][:]) for c in tf.data_chunks())
                    d['tail'] = norm(ch.read_data(max(len(ch) - 2, 0), 5))
                out[ch.path] = d
        out['status'] = bool(tf.file_status.incomplete_final_segment)
        return out
    try:
        ref_e = snapshot(TdmsFile.read(io.BytesIO(blob), raw_timestamps=True), False)
        with TdmsFile.open(io.BytesIO(blob), raw_timestamps=True) as tf:
            ref_l = snapshot(tf, True)
    except Exception:       # noqa  reading the cut file as a stream is C06's business
        rec.stat('reference_raised')
        return
    with scratch_file(blob, as_path=True, index=index) as (src, _tmp):
        path = pathlib.Path(src) if case['pathlib'] else src
        for mode, ref in (('eager', ref_e), ('lazy', ref_l)):
            def run():
                if mode == 'eager':
                    return snapshot(TdmsFile.read(path, raw_timestamps=True), False)
                with TdmsFile.open(path, raw_timestamps=True) as tf:
                    return snapshot(tf, True)
            ok, got = rec.guard('access:by_path_with_index:' + mode, run)
            if ok and got != ref:
                bad = [k for k in ref if got.get(k) != ref[k]][:1] or ['(objects differ)']
                sub = [k for k in (ref[bad[0]] if isinstance(ref[bad[0]], dict) else {}) if got.get(bad[0], {}).get(k) != ref[bad[0]][k]]
                rec.violation('agree:by_path_with_index:' + mode, '%s %s: by path (index file used) %r, as a stream (no index) %r' % (
                    bad[0], sub[:2], str({k: got.get(bad[0], {}).get(k) for k in sub[:2]} if sub else got.get(bad[0]))[:120],
                    str({k: ref[bad[0]][k] for k in sub[:2]} if sub else ref[bad[0]])[:120]))


@st.composite
def daqmx_cases(draw):
    from vf.daqmx import daqmx_file
    case = {'fs': draw(daqmx_file(max_len=4)), 'memmap': draw(st.integers(0, 3)) == 0, 'as_path': draw(st.integers(0, 3)) == 0}
    if not case['as_path'] and draw(st.integers(0, 3)) == 0:
        case['block'] = draw(st.sampled_from([1, 2, 3, 5, 8, 13, 64]))      # stream delivering short readinto() blocks
    return case


@st.composite
def cases(draw, **kw):
    fs = draw(S.file_spec(**kw))
    if draw(st.integers(0, 3)) == 0:
        fs = draw(S.with_continuation(fs))      # raw-data-only segments repeating the last layout, either byte order
    case = {'fs': fs, 'memmap': draw(st.integers(0, 3)) == 0, 'raw_ts': draw(st.booleans()),
            'as_path': draw(st.sampled_from([False, False, False, True, 'pathlib']))}
    if not case['as_path'] and draw(st.integers(0, 3)) == 0:
        case['block'] = draw(st.sampled_from([1, 2, 3, 5, 8, 13, 64]))      # stream delivering short readinto() blocks
    return case


def sensor_scaled_cases():
    from props.C14 import scale_variants
    variants = [(n, g) for (n, g) in scale_variants() if g]

    def fn(shard, nshards):
        i = 0
        for (name, graph) in variants:
            for t in ('f64', 'f32', 'i16'):
                i += 1
                if i % nshards == shard:
                    raw = np.array([1.0 + 0.25 * k for k in range(3)], dtype={'f64': '<f8', 'f32': '<f4', 'i16': '<i2'}[t])
                    yield {'type': t, 'graph': graph, 'level': 'channel', 'other': None, 'status': None, 'with_count': True,
                           'other_count': True, 'segs': [[raw.tobytes(), raw.tobytes()], [raw.tobytes()]], 'be': False,
                           'variant': name}
    return fn


@st.composite
def twin_cases(draw):
    return {'fs': draw(S.twin_long_file()), 'memmap': False, 'raw_ts': True, 'as_path': False}


def _scaled_cases():
    from props.C13 import cases as c13_cases
    return c13_cases(noop=True)


def jobs(tier):
    if tier == 'quick':
        return [Job('files', 'hyp', lambda: cases(max_segments=5), n=2500),
                Job('long_files_shared_offset_prefix', 'hyp', twin_cases, n=48),
                Job('daqmx_files', 'hyp', daqmx_cases, n=800, check=check_daqmx),
                Job('short_chunk_in_middle_segment', 'hyp', short_mid_cases, n=1200, check=check_short_mid),
                Job('cut_file_next_to_its_index', 'hyp', cut_index_cases, n=500, check=check_cut_with_index),
                Job('scaled_channels', 'hyp', _scaled_cases, n=800, check=check_scaled),
                Job('every_scale_type', 'enum', sensor_scaled_cases(), exhaustive=True, check=check_scaled,
                    note='every scale type of the C14 matrix x 3 raw types: all access paths against the eager full read')]
    return [Job('files', 'hyp', lambda: cases(max_segments=6), n=100000),
            Job('long_files_shared_offset_prefix', 'hyp', twin_cases, n=1500),
            Job('bigger', 'hyp', lambda: cases(max_segments=8, max_n=60, max_chunks=4), n=20000),
            Job('daqmx_files', 'hyp', daqmx_cases, n=30000, check=check_daqmx),
            Job('short_chunk_in_middle_segment', 'hyp', short_mid_cases, n=40000, check=check_short_mid),
            Job('cut_file_next_to_its_index', 'hyp', cut_index_cases, n=15000, check=check_cut_with_index),
            Job('scaled_channels', 'hyp', _scaled_cases, n=30000, check=check_scaled),
            Job('every_scale_type', 'enum', sensor_scaled_cases(), exhaustive=True, check=check_scaled,
                note='every scale type of the C14 matrix x 3 raw types: all access paths against the eager full read')]
