"""C14 - channel.dtype and len(channel) describe what reads return."""
import io
import itertools
import struct

import numpy as np
from hypothesis import strategies as st

from vf.harness import Job, describe_exc, exc_key
from vf import scales as SC
from vf import strategies as S
from vf.encode import encode_file
from vf.model import make_path, np_dtype, tsize, ALL_TYPES, INT_RANGES
from props.C13 import cases as c13_cases, build_file as c13_build

ID = 'C14'
LEVEL = 'exploration'
NUMERIC = ['i8', 'i16', 'i32', 'i64', 'u8', 'u16', 'u32', 'u64', 'f32', 'f64']
STRAIN = [10183, 10184, 10185, 10188, 10189, 10271, 10272]
RULE = ("ENUMERATED matrix: every raw type (10 numeric x 27 scalings: none, Linear (incl. the identity), identity polynomial, Polynomial with 0 and 3 coefficients, Table, "
        "RTD, Thermistor x 2 excitations, Strain x 7 bridges, Thermocouple x 2 directions, AdvancedAPI on raw and on a scale, "
        "Add and Subtract over mixed operands, Linear->Add chain; 7 non-numeric types unscaled) x channel length 0 / 1 / 5 "
        "over 2 segments x eager / lazy x raw_timestamps on / off, each with every read operation: [:], read_data(), all "
        "windows incl. empty ones, slices incl. stepped and empty, integer index, channel and file chunk streams (incl. chunks "
        "in which the channel is absent), iteration, .data. RANDOM: C13 scale graphs incl. no-op scales, C01 files, DAQmx "
        "files. Oracle: result.dtype == channel.dtype up to byte order (object for strings, datetime64[us] for timestamps "
        "unless raw), empty results included, and a full read has len(channel) elements. Non-trivial: scaled channel, empty "
        "result, or non-float64 raw type."
        ' Windows and slices are judged again right after each integer index, and full reads, windows and slices must '
        'be NumPy arrays (not lists).'
        ' A twin-file job requires every full read (both channel orders) to have len(channel) elements.')
ASSUMPTIONS = [
    "dtype equality is up to byte order (in-memory byte order of a chunk is representation, not type)",
    "with raw_timestamps=True timestamp channels are only required to yield TimestampArray for non-empty results",
    "reads that raise (e.g. sensor scaling outside its domain) are not successful reads and are only counted",
]


def scale_variants():
    L = {'type': 'Linear', 'slope': 2.0, 'intercept': 1.0, 'src': None, 'explicit_src': False}
    rtd = {'RTD_Current_Excitation': 1e-2, 'RTD_R0_Nominal_Resistance': 100.0, 'RTD_A': 3.9083e-3, 'RTD_B': -5.775e-7,
           'RTD_C': -4.183e-12, 'RTD_Lead_Wire_Resistance': 0.0, 'RTD_Resistance_Configuration': 4}
    thm = {'Thermistor_Excitation_Type': 10134, 'Thermistor_Excitation_Value': 1e-3,
           'Thermistor_Resistance_Configuration': 4, 'Thermistor_R1_Reference_Resistance': 1e4,
           'Thermistor_Lead_Wire_Resistance': 0.0, 'Thermistor_A': 1.3e-3, 'Thermistor_B': 2.4e-4, 'Thermistor_C': 1e-7,
           'Thermistor_Temperature_Offset': 0.0}
    out = [('none', None), ('Linear', [L]), ('Linear_identity', [dict(L, slope=1.0, intercept=0.0)]),
           ('Polynomial_identity', [{'type': 'Polynomial', 'coeffs': [0.0, 1.0], 'src': None, 'explicit_src': False,
                                     'size_prop': True}]),
           ('Polynomial0', [{'type': 'Polynomial', 'coeffs': [], 'src': None, 'explicit_src': False, 'size_prop': True}]),
           ('Polynomial3', [{'type': 'Polynomial', 'coeffs': [1.0, 0.5, 0.25], 'src': None, 'explicit_src': True,
                             'size_prop': True}]),
           ('Table', [{'type': 'Table', 'scaled': [0.0, 10.0, 100.0], 'pre': [1.0, 2.0, 4.0], 'src': None,
                       'explicit_src': False}]),
           ('RTD', [{'type': 'RTD', 'p': rtd, 'src': None}]),
           ('Thermistor_I', [{'type': 'Thermistor', 'p': thm, 'src': None}]),
           ('Thermistor_V', [{'type': 'Thermistor', 'p': dict(thm, Thermistor_Excitation_Type=10322,
                                                             Thermistor_Excitation_Value=1000.0), 'src': None}])]
    for code in STRAIN:
        out.append(('Strain%d' % code, [{'type': 'Strain', 'src': None, 'p': {
            'Strain_Configuration': code, 'Strain_Poisson_Ratio': 0.3, 'Strain_Gage_Resistance': 350.0,
            'Strain_Lead_Wire_Resistance': 1.0, 'Strain_Initial_Bridge_Voltage': 0.01, 'Strain_Gage_Factor': 2.0,
            'Strain_Bridge_Shunt_Calibration_Gain_Adjustment': 1.1, 'Strain_Voltage_Excitation': 1000.0}}]))
    for d in (0, 1):
        out.append(('Thermocouple%d' % d, [{'type': 'Thermocouple', 'src': None, 'p': {'type_code': 10073, 'direction': d}}]))
    out.append(('NoOp_raw', [{'type': 'AdvancedAPI', 'src': None, 'explicit_src': False}]))
    out.append(('NoOp_of_scale', [L, {'type': 'AdvancedAPI', 'src': 0, 'explicit_src': True}]))
    out.append(('Add_raw_scale', [L, {'type': 'Add', 'left': None, 'right': 0}]))
    out.append(('Subtract_scale_raw', [L, {'type': 'Subtract', 'left': 0, 'right': None}]))
    out.append(('Add_scale_scale', [L, dict(L, slope=0.5), {'type': 'Add', 'left': 0, 'right': 1}]))
    out.append(('Linear_of_Add', [L, {'type': 'Add', 'left': None, 'right': 0}, dict(L, src=1, explicit_src=True)]))
    return out


def sample_raw(t, n, start=0):
    if t in INT_RANGES:
        return np.array([(3 + i + start) % 5 + 1 for i in range(n)], dtype=np_dtype(t)).tobytes()
    if t in ('f32', 'f64'):
        return np.array([1.0 + 0.25 * (i + start) for i in range(n)], dtype=np_dtype(t)).tobytes()
    if t == 'ts':
        # whole seconds in the first half of the channel, fractional values after: conversions must not depend on the values
        return b''.join(struct.pack('<Qq', 0 if (i + start) < 3 else 2 ** 63 + i, 3500000000 + i + start) for i in range(n))
    return b''.join(S.unique_value(t, 1, i + start) for i in range(n))


def matrix_cases():
    def fn(shard, nshards):
        i = 0
        for t in ALL_TYPES + [None]:
            variants = scale_variants() if t in NUMERIC else [('none', None)]
            for (name, graph) in variants:
                for length in (0, 1, 5):
                    i += 1
                    if i % nshards == shard:
                        yield {'matrix': True, 'type': t, 'scale': name, 'graph': graph, 'length': length}
    return fn


def build_matrix_file(case):
    t = case['type']
    p = make_path('g', 'c')
    other = make_path('g', 'other')
    props = SC.graph_props(case['graph'], True) if case['graph'] else []
    n = case['length']
    segs = []
    if t is None:
        segs.append({'be': False, 'interleaved': False, 'entries': [{'path': p, 'hdr': 'nodata', 'props': props}],
                     'active': [], 'nchunks': 0, 'data': {}})
        return {'segments': segs}
    # segment 1: both channels; segment 2: only the other channel (channel absent); segment 3: channel again
    parts = [n - n // 2, n // 2]
    start = 0
    for si, k in enumerate([parts[0], None, parts[1]]):
        entries, active, data = [], [], {}
        if k is not None:
            if t == 'str':
                vals = [S.unique_string(0, start + i, 4) for i in range(k)]
                ent = {'path': p, 'hdr': 'full', 'type': t, 'n': k, 'total': sum(4 + len(v.encode()) for v in vals)}
                data[p] = [vals]
            else:
                ent = {'path': p, 'hdr': 'full', 'type': t, 'n': k}
                data[p] = [sample_raw(t, k, start)]
            start += k
            if si == 0:
                ent['props'] = props
            entries.append(ent)
            active.append([p, t, k])
        entries.append({'path': other, 'hdr': 'full', 'type': 'i16', 'n': 2})
        active.append([other, 'i16', 2])
        data[other] = [b'\x01\x00\x02\x00']
        segs.append({'be': si == 2, 'interleaved': False, 'entries': entries, 'active': active, 'nchunks': 1, 'data': data})
    return {'segments': segs}


def dtype_ok(got, want):
    return np.dtype(got).newbyteorder('=') == np.dtype(want).newbyteorder('=')


def _opkind(name):
    after = ' after index' if ' after ' in name else ''
    head = name.split(' after ')[0]
    if head.startswith('read_data'):
        return 'read_data' + after
    if head.startswith('[') and ':' in head:
        return 'slice' + after
    if head.startswith('['):
        return 'index'
    return head + after


def check_channel_dtype(rec, ch, tf, mode, raw_ts, is_ts, where):
    want = ch.dtype
    n = len(ch)
    nviol = [0]

    def judge(name, fn, scalar=False, full=False, array=False):
        try:
            r = fn()
        except Exception as e:      # noqa
            rec.stat('reads_raised')
            rec.label('raised:' + type(e).__name__)
            return
        rec.stat('reads_checked')
        if array and not hasattr(r, 'dtype') and not (is_ts and raw_ts):
            # full reads, windows and slices are documented (and observed) to return NumPy arrays
            rec.violation('container:%s:%s' % (mode, _opkind(name)), '%s %s returned a %s, not an array of channel.dtype %s' % (
                where, name, type(r).__name__, want))
            return
        items = r if isinstance(r, list) else [r]
        for x in items:
            if is_ts and raw_ts:
                from nptdms.timestamp import TimestampArray, TdmsTimestamp
                if scalar:
                    good = isinstance(x, TdmsTimestamp)
                else:
                    good = len(x) == 0 or isinstance(x, TimestampArray)
                if not good:
                    rec.violation('raw_timestamp_container:' + mode, '%s %s returned %s' % (where, name, type(x).__name__))
                continue
            if not hasattr(x, 'dtype'):
                # Python str scalars and the plain lists string chunks are delivered as carry no dtype to compare
                rec.stat('results_without_dtype')
                continue
            a = np.asarray(x)
            if len(a.shape) and a.shape[0] == 0:
                rec.label('empty_result')
            if not dtype_ok(a.dtype, want):
                rec.violation('dtype:%s:%s' % (mode, _opkind(name)), '%s %s has dtype %s (%d values) but channel.dtype is %s' % (
                    where, name, a.dtype, a.size, want))
                return
        if full and not isinstance(r, list) and len(r) != n:
            rec.violation('len:' + mode, '%s %s has %d elements, len(channel) = %d' % (where, name, len(r), n))

    judge('[:]', lambda: ch[:], full=True, array=True)
    judge('read_data()', lambda: ch.read_data(), full=True, array=True)
    if mode == 'eager':
        judge('.data', lambda: ch.data, full=True, array=True)
    windows = [(0, 0), (0, 1), (1, 2), (n, 1), (n + 1, 0), (max(n - 1, 0), 5), (0, None), (2, None)]
    slices = [slice(0, 0), slice(1, 1), slice(None, None, 2), slice(None, None, -1), slice(1, None), slice(-2, None),
              slice(n, None), slice(3, 1), slice(None, 1, -1), slice(0, 1), slice(0, 2), slice(1, 2), slice(-1, None)]
    for (o, l) in windows:
        judge('read_data(%r,%r)' % (o, l), lambda: ch.read_data(o, l), array=True)
    for s in slices:
        judge('[%r:%r:%r]' % (s.start, s.stop, s.step), lambda: ch[s], array=True)
    if n:
        # an integer index leaves a cached chunk behind: the same windows and slices are judged again right after each one
        for i in sorted({0, -1, n // 2}):
            judge('[%d]' % i, lambda: ch[i], scalar=True)
            for (o, l) in windows:
                judge('read_data(%r,%r) after [%d]' % (o, l, i), lambda: ch.read_data(o, l), array=True)
            for s in slices:
                judge('[%r:%r:%r] after [%d]' % (s.start, s.stop, s.step, i), lambda: ch[s], array=True)
            judge('[:] after [%d]' % i, lambda: ch[:], full=True, array=True)
        judge('iteration', lambda: list(ch)[:3], scalar=True)
    if mode == 'lazy':
        judge('channel.data_chunks()', lambda: [c[:] for c in ch.data_chunks()])
        g, c = ch.group_name, ch.name
        judge('file.data_chunks()', lambda: [x[g][c][:] for x in tf.data_chunks()])
        judge('chunk slices', lambda: [x[g][c][0:0] for x in tf.data_chunks()])


def check(case, rec):
    from nptdms import TdmsFile
    if case.get('twin'):
        return check_twin(case, rec)
    if case.get('matrix'):
        fs = build_matrix_file(case)
        t = case['type']
        rec.label('raw=%s' % t, 'scale=' + case['scale'], 'len=%d' % case['length'])
        rec.nontrivial(case['graph'] is not None or case['length'] == 0 or t != 'f64')
        chans = [('g', 'c', t)]
    elif 'graph' in case:
        fs, graph = c13_build(case)
        rec.nontrivial(True)
        rec.label('random_graph')
        chans = [('g', 'c', case['type'])]
    elif case.get('daqmx'):
        fs = case['fs']
        rec.nontrivial(True)
        rec.label('daqmx')
        chans = None
    else:
        fs = case['fs']
        rec.nontrivial(True)
        rec.label('c01_file')
        chans = None
    data, _i, _l = encode_file(fs)
    for raw_ts in (False, True):
        for mode in ('eager', 'lazy'):
            opener = TdmsFile.read if mode == 'eager' else TdmsFile.open
            ok, tf = rec.guard('open:' + mode, lambda: opener(io.BytesIO(data), raw_timestamps=raw_ts))
            if not ok:
                continue
            try:
                for g in tf.groups():
                    for ch in g.channels():
                        is_ts = ch.data_type is not None and ch.data_type.__name__ == 'TimeStamp'
                        check_channel_dtype(rec, ch, tf, mode, raw_ts, is_ts, '%s %s' % (mode, ch.path))
            finally:
                tf.close()
        if not any(t == 'ts' for seg in fs['segments'] for (_p, t, _n) in seg.get('active') or []):
            break


@st.composite
def twin_case(draw):
    return {'twin': True, 'fs': draw(S.twin_long_file())}


def check_twin(case, rec):
    """100+ segment files whose channels share a long prefix of per-segment counts: every full read of every channel,
    in both channel orders on one lazily opened file, has len(channel) elements of channel.dtype"""
    from nptdms import TdmsFile
    data, _i, _l = encode_file(case['fs'])
    rec.nontrivial(True)
    rec.label('long_twin_file')
    for order in (1, -1):
        ok, tf = rec.guard('open:lazy', lambda: TdmsFile.open(io.BytesIO(data)))
        if not ok:
            return
        with tf:
            chans = [ch for g in tf.groups() for ch in g.channels()][::order]
            for ch in chans:
                n = len(ch)
                for name, fn in (('[:]', lambda: len(ch[:])), ('read_data()', lambda: len(ch.read_data())),
                                 ('iteration', lambda: sum(1 for _ in ch)),
                                 ('channel.data_chunks()', lambda: sum(len(c[:]) for c in ch.data_chunks())),
                                 ('len of chunks', lambda: sum(len(c) for c in ch.data_chunks()))):
                    ok, got = rec.guard('twin:' + name, fn)
                    if ok and got != n:
                        rec.violation('len:lazy:' + name, '%s: %s delivers %d values, len(channel) = %d (channels read %s)' % (
                            ch.path, name, got, n, 'first to last' if order == 1 else 'last to first'))
                ok, arr = rec.guard('twin:[:]', lambda: ch[:])
                if ok and hasattr(arr, 'dtype') and not dtype_ok(arr.dtype, ch.dtype):
                    rec.violation('dtype:lazy:[:]', '%s [:] has dtype %s, channel.dtype %s' % (ch.path, arr.dtype, ch.dtype))


@st.composite
def c01_case(draw):
    return {'fs': draw(S.file_spec(max_segments=3, max_channels=4, max_n=3, props=False))}


@st.composite
def daqmx_case(draw):
    from vf.daqmx import daqmx_file
    return {'daqmx': True, 'fs': draw(daqmx_file(max_segments=2, max_len=3))}


def jobs(tier):
    base = [Job('type_x_scale_x_length_matrix', 'enum', matrix_cases(), exhaustive=True,
                note='17 data types + untyped x 25 scalings (numeric types) x lengths 0/1/5, all read operations, eager/lazy')]
    if tier == 'quick':
        return base + [Job('random_graphs', 'hyp', lambda: c13_cases(noop=True), n=1500),
                       Job('c01_files', 'hyp', c01_case, n=500),
                       Job('daqmx_files', 'hyp', daqmx_case, n=300),
                       Job('long_files_shared_offset_prefix', 'hyp', twin_case, n=48, check=check_twin)]
    return base + [Job('random_graphs', 'hyp', lambda: c13_cases(noop=True), n=50000),
                   Job('c01_files', 'hyp', c01_case, n=20000),
                   Job('daqmx_files', 'hyp', daqmx_case, n=10000),
                   Job('long_files_shared_offset_prefix', 'hyp', twin_case, n=1500, check=check_twin)]
