"""C05 - Reads from an open file are independent of earlier reads (rule-based state machine)."""
import io
import os
import itertools
import time

import numpy as np
import hypothesis
from hypothesis import strategies as st, settings, Phase, HealthCheck
from hypothesis.stateful import RuleBasedStateMachine, rule, initialize, precondition, run_state_machine_as_test

from vf.harness import Job, exc_key, describe_exc
from vf import strategies as S
from vf.encode import encode_file
from vf.expect import expected_content
from vf.observe import compare_values, compare_scalars, RecordingStream
from vf.model import split_path, tsize
from props.C03 import compare_parts
from props.C04 import slice_vals

ID = 'C05'
LEVEL = 'exploration'
RULE = ("Hypothesis RuleBasedStateMachine: one generated file (C04 shapes: multi-segment, multi-chunk, absent channels, "
        "interleaved, strings; or 100+ segment files with channels sharing offset arrays) is opened once with "
        "TdmsFile.open on a recording stream; rules interleave integer indexing, slicing, windowed reads, partial value "
        "iteration and next() on any number of live channel.data_chunks() / TdmsFile.data_chunks() generators; every "
        "result is compared with the model, every k-th next() with the k-th chunk of a fresh file's iterator, and at "
        "teardown all live iterators are drained and must deliver the complete remaining sequence. Non-trivial: a "
        "history in which an iterator is advanced after another operation performed reads on the stream in between; "
        "distinct by SHA-1 of (file, op list)."
        ' Every index / slice / window result is also compared in REPRESENTATION (container type, dtype with byte '
        'order, shape) with the same request on a freshly opened file, and arrays returned earlier are re-checked at '
        'the end of the history: later operations must not change them.'
        ' File-level iterators may be inspected one step late (chunk k looked at after chunk k+1 was requested).'
        ' Model-free jobs compare every operation of a short history with the same operation on a freshly opened file '
        '(files with an incomplete final chunk, scaled channels) and read delivered chunk objects repeatedly (every '
        'scale type x 3 raw types).'
        ' Files get raw-data-only continuation segments in either byte order; a model-free job also runs every '
        "operation twice on a data file that sits next to another file's index.")
ASSUMPTIONS = [
    "single-threaded histories only (documented: open files are not thread-safe)",
    "canonical chunk sequences come from a fresh TdmsFile.open of the same bytes and are themselves checked against the "
    "model (concatenation and offsets)",
]


class Executor(object):
    """Applies a list of JSON ops to one open file; shared by the state machine and by replay."""

    def __init__(self, fs):
        from nptdms import TdmsFile
        self.viol = []          # (clause, message, key)
        self.fs = fs
        data, _i, _l = encode_file(fs)
        if fs.get('_kind') == 'daqmx':
            from props.C03 import DaqEx
            self.ex = DaqEx(fs)
        else:
            self.ex = expected_content(fs)
        self.chans = [p for p in self.ex.channel_paths()]
        self.data = data
        self.stream = RecordingStream(data)
        self.tf = None
        self.iters = []
        self.held = []          # (request, array as returned, bytes when returned)
        self.nt = False
        self.ops_done = 0
        try:
            self.tf = TdmsFile.open(self.stream, raw_timestamps=True)
            fresh = TdmsFile.open(io.BytesIO(data), raw_timestamps=True)
        except Exception as e:      # noqa
            self.viol.append(('open:raised', describe_exc(e), exc_key(e)))
            return
        # canonical sequences from a fresh file
        self.canon_chan = {}
        try:
            for p in self.chans:
                g, c = split_path(p)
                seq = []
                for chunk in fresh[g][c].data_chunks():
                    seq.append((chunk.offset, chunk[:]))
                self.canon_chan[p] = seq
                t = self.ex.objects[p]['type']
                msgs = compare_parts(t, self.ex.values(p), [d for (_o, d) in seq], 'fresh channel chunks %s' % p, True)
                if msgs:
                    self.viol.append(('canonical', msgs[0], None))
            self.canon_file = []
            for chunk in fresh.data_chunks():
                row = {}
                for p in self.chans:
                    g, c = split_path(p)
                    cc = chunk[g][c]
                    row[p] = (cc.offset, cc[:])
                self.canon_file.append(row)
        except Exception as e:      # noqa
            self.viol.append(('canonical:raised', describe_exc(e), exc_key(e)))
            self.tf = None
        finally:
            fresh.close()

    # ------------------------------------------------------------------------------------
    def _chan(self, ci):
        p = self.chans[ci % len(self.chans)]
        g, c = split_path(p)
        return p, self.tf[g][c], self.ex.objects[p]['type'], self.ex.values(p), self.ex.length(p)

    def _v(self, clause, msg, key=None):
        self.viol.append((clause, 'after %d ops: %s' % (self.ops_done, msg), key))

    def _hold(self, request, arr):
        if isinstance(arr, np.ndarray) and arr.dtype != object and len(self.held) < 200:
            self.held.append((request, arr, arr.tobytes()))

    @staticmethod
    def _shape_of(x):
        """representation of a result: container type, dtype (with byte order) and shape"""
        if isinstance(x, np.ndarray):
            return (type(x).__name__, x.dtype.str, tuple(x.shape))
        if isinstance(x, (list, tuple)):
            return (type(x).__name__, len(x))
        return (type(x).__name__,)

    def _fresh_same_shape(self, p, got, request, fn):
        """the same request on a freshly opened file must give the same kind of result (container, dtype, shape)"""
        from nptdms import TdmsFile
        g, c = split_path(p)
        with TdmsFile.open(io.BytesIO(self.data), raw_timestamps=True) as fresh:
            want = fn(fresh[g][c])
        a, b = self._shape_of(got), self._shape_of(want)
        if a != b:
            self._v('representation', '%s returned %r, on a freshly opened file the same request returns %r' % (request, a, b))

    def _same(self, t, want, got, where):
        """want / got are arrays as returned by chunk[:]"""
        if t is None:
            return [] if len(got) == 0 else ['%s: values for untyped channel' % where]
        wv = _to_vals(t, want)
        return compare_values(t, wv, got, where, True)

    def apply(self, op):
        if self.tf is None or not self.chans:
            return
        kind = op[0]
        before = len(self.stream.log)
        try:
            if kind == 'index':
                p, ch, t, vals, n = self._chan(op[1])
                if n == 0 or t is None:
                    return
                i = op[2] % (2 * n) - n
                got = ch[i]
                msgs = compare_scalars(t, vals, [got], [i % n], '%s[%d]' % (p, i), True)
                if msgs:
                    self._v('index', msgs[0])
                self._fresh_same_shape(p, got, '%s[%d]' % (p, i), lambda f: f[i])
            elif kind == 'slice':
                p, ch, t, vals, n = self._chan(op[1])
                if t is None:
                    return
                a, b, s = op[2], op[3], op[4]
                a = None if a is None else a % (2 * n + 5) - n - 2
                b = None if b is None else b % (2 * n + 5) - n - 2
                got = ch[a:b:s]
                msgs = compare_values(t, slice_vals(t, vals, slice(a, b, s)), got, '%s[%r:%r:%r]' % (p, a, b, s), True)
                if msgs:
                    self._v('slice', msgs[0])
                self._fresh_same_shape(p, got, '%s[%r:%r:%r]' % (p, a, b, s), lambda f: f[a:b:s])
                self._hold('%s[%r:%r:%r]' % (p, a, b, s), got)
            elif kind == 'window':
                p, ch, t, vals, n = self._chan(op[1])
                if t is None:
                    return
                o = op[2] % (n + 3)
                l = None if op[3] is None else op[3] % (n + 3)
                scaled = bool(op[4]) or bool(self.ex.objects[p].get('skip_unscaled'))
                got = ch.read_data(o, l, scaled=scaled)
                want = slice_vals(t, vals, slice(o, None if l is None else o + l))
                msgs = compare_values(t, want, got, '%s.read_data(%d,%r)' % (p, o, l), True)
                if msgs:
                    self._v('window', msgs[0])
                self._fresh_same_shape(p, got, '%s.read_data(%d,%r)' % (p, o, l), lambda f: f.read_data(o, l, scaled=scaled))
                self._hold('%s.read_data(%d,%r)' % (p, o, l), got)
            elif kind == 'values':
                p, ch, t, vals, n = self._chan(op[1])
                if t is None:
                    return
                m = op[2] % (n + 1)
                got = list(itertools.islice(iter(ch), m))
                msgs = compare_scalars(t, vals, got, list(range(m)), 'first %d values of iter(%s)' % (m, p), True)
                if msgs:
                    self._v('iterate', msgs[0])
            elif kind == 'citer':
                p, ch, t, vals, n = self._chan(op[1])
                self.iters.append({'kind': 'c', 'path': p, 'gen': ch.data_chunks(), 'k': 0, 'done': False,
                                   'mark': None})
            elif kind == 'fiter':
                # op[1] true: every chunk object of this iterator is only inspected after the NEXT one has been requested
                self.iters.append({'kind': 'f', 'path': None, 'gen': self.tf.data_chunks(), 'k': 0, 'done': False,
                                   'mark': None, 'deferred': bool(op[1]) if len(op) > 1 else False, 'pending': None})
            elif kind == 'next':
                live = [it for it in self.iters if not it['done']]
                if not live:
                    return
                self._advance(live[op[1] % len(live)])
            elif kind == 'drop':
                live = [it for it in self.iters if not it['done']]
                if not live:
                    return
                it = live[op[1] % len(live)]
                it['done'] = True
                it['gen'] = None
                if it.get('pending') is not None:
                    self._inspect_file_chunk(*it['pending'])
                    it['pending'] = None
        except Exception as e:      # noqa
            self._v('%s:raised' % kind, '%r -> %s' % (op, describe_exc(e)), exc_key(e))
        finally:
            self.ops_done += 1
            if len(self.stream.log) > before:
                for it in self.iters:
                    if it is not None and not it['done'] and it.get('last_op') != self.ops_done:
                        it['foreign_reads'] = True

    def _advance(self, it):
        if it.get('foreign_reads') and it['k'] > 0:
            self.nt = True
        it['foreign_reads'] = False
        it['last_op'] = self.ops_done + 1
        try:
            chunk = next(it['gen'])
        except StopIteration:
            it['done'] = True
            if it.get('pending') is not None:
                self._inspect_file_chunk(*it['pending'])
                it['pending'] = None
            total = len(self.canon_chan[it['path']]) if it['kind'] == 'c' else len(self.canon_file)
            if it['k'] != total:
                self._v('iterator_complete', '%s iterator ended after %d chunks, a fresh one yields %d' % (
                    it['path'] or 'file', it['k'], total))
            return False
        k = it['k']
        it['k'] += 1
        if it['kind'] == 'c':
            p = it['path']
            canon = self.canon_chan[p]
            t = self.ex.objects[p]['type']
            if k >= len(canon):
                self._v('iterator_extra', '%s iterator yielded chunk %d, a fresh one yields only %d' % (p, k, len(canon)))
                return True
            off, want = canon[k]
            if chunk.offset != off:
                self._v('chunk_offset', '%s chunk %d offset %d, fresh iterator %d' % (p, k, chunk.offset, off))
            got = chunk[:]
            self._hold('%s chunk %d' % (p, k), got)
            msgs = self._same(t, want, got, '%s chunk %d' % (p, k))
            if msgs:
                self._v('chunk_values:channel', msgs[0])
        else:
            if it.get('deferred'):
                self.nt = True
                prev, it['pending'] = it.get('pending'), (k, chunk)
                if prev is not None:
                    self._inspect_file_chunk(*prev)
            else:
                self._inspect_file_chunk(k, chunk)
        return True

    def _inspect_file_chunk(self, k, chunk):
        if k >= len(self.canon_file):
            self._v('iterator_extra', 'file iterator yielded chunk %d, a fresh one yields only %d' % (
                k, len(self.canon_file)))
            return
        row = self.canon_file[k]
        for p in self.chans:
            g, c = split_path(p)
            cc = chunk[g][c]
            off, want = row[p]
            t = self.ex.objects[p]['type']
            if cc.offset != off:
                self._v('chunk_offset', 'file chunk %d %s offset %d, fresh iterator %d' % (k, p, cc.offset, off))
            msgs = self._same(t, want, cc[:], 'file chunk %d %s' % (k, p))
            if msgs:
                self._v('chunk_values:file', msgs[0])
                break

    def finish(self):
        """drain all live iterators: each must deliver its complete remaining sequence"""
        if self.tf is None:
            return
        for it in self.iters:
            guard = 0
            while not it['done'] and guard < 100000:
                guard += 1
                try:
                    if not self._advance(it):
                        break
                except Exception as e:      # noqa
                    self._v('drain:raised', describe_exc(e), exc_key(e))
                    break
        for (request, arr, snap) in self.held:
            if arr.tobytes() != snap:
                self._v('result_mutated', 'the array returned by %s was changed by later operations: it held %r, now %r' % (
                    request, np.frombuffer(snap, dtype=arr.dtype)[:4], arr[:4]))
                break
        try:
            self.tf.close()
        except Exception as e:      # noqa
            self._v('close:raised', describe_exc(e), exc_key(e))


def _to_vals(t, arr):
    import struct
    from vf.observe import le_bytes, raw_ts_pairs
    if t == 'str':
        return list(arr)
    if t == 'ts':
        if len(arr) == 0:
            return b''
        return b''.join(struct.pack('<Qq', f, s) for (s, f) in raw_ts_pairs(arr))
    return le_bytes(np.asarray(arr))


def check(case, rec):
    if case.get('diff'):
        return check_diff(case, rec)
    exe = Executor(case['fs'])
    for op in case['ops']:
        exe.apply(op)
    exe.finish()
    rec.nontrivial(exe.nt)
    rec.label(*(S.spec_classes(case['fs']) if case['fs'].get('_kind') != 'daqmx' else ['daqmx']))
    rec.stat('ops', len(case['ops']))
    rec.stat('iterators', len(exe.iters))
    kinds = set(op[0] for op in case['ops'])
    for k in kinds:
        rec.label('op=' + k)
    if sum(1 for it in exe.iters) >= 2:
        rec.label('two_or_more_iterators')
    for (clause, msg, key) in exe.viol:
        rec.violation(clause, msg, key=key)


def shrink(case, key, check_fn, deadline):
    """greedy removal of ops / trailing segments while the same bucket still fails"""
    from vf.harness import Recorder

    def fails(c):
        r = Recorder(ID)
        r.begin(c)
        check_fn(c, r)
        return key in r.violations
    ops = list(case['ops'])
    changed = True
    while changed and time.time() < deadline:
        changed = False
        i = len(ops) - 1
        while i >= 0 and time.time() < deadline:
            trial = ops[:i] + ops[i + 1:]
            if fails({'fs': case['fs'], 'ops': trial}):
                ops = trial
                changed = True
            i -= 1
    return {'fs': case['fs'], 'ops': ops}


_plain_strategy = S.file_spec(min_segments=1, max_segments=5, max_channels=3, max_n=4, max_chunks=4, values='unique',
                              props=False, pad=False, nodata_entries=False, names='simple', max_groups=2)


@st.composite
def _with_continuations(draw):
    fs = draw(_plain_strategy)
    if draw(st.integers(0, 2)) == 0:
        # raw-data-only segments repeating the last layout (possibly in the other byte order): they share its objects
        fs = draw(S.with_continuation(fs))
    return fs


_file_strategy = _with_continuations()
_long_strategy = S.file_spec(min_segments=101, max_segments=130, max_channels=3, max_n=2, max_chunks=2, values='unique',
                             props=False, pad=False, nodata_entries=False, names='simple', max_groups=1,
                             types=['i16', 'f64', 'str', 'u8'], absent=False)
_twin_strategy = S.twin_long_file()


def _daqmx_strategy():
    from vf.daqmx import daqmx_file
    return daqmx_file(max_len=4, max_chunks=3).map(lambda fs: dict(fs, _kind='daqmx'))
_small = st.integers(0, 10 ** 4)
_opt = st.one_of(st.none(), _small)


def make_machine(rec, file_strategy, steps):
    class Machine(RuleBasedStateMachine):
        def __init__(self):
            super().__init__()
            self.exe = None
            self.ops = []
            self.fs = None

        @initialize(fs=file_strategy)
        def open_file(self, fs):
            self.fs = fs
            self.exe = Executor(fs)

        def _do(self, op):
            self.ops.append(op)
            self.exe.apply(op)

        @rule(ci=_small, i=_small)
        def index(self, ci, i):
            self._do(['index', ci, i])

        @rule(ci=_small, a=_opt, b=_opt, s=st.sampled_from([None, 1, 2, -1, -2]))
        def slice_(self, ci, a, b, s):
            self._do(['slice', ci, a, b, s])

        @rule(ci=_small, o=_small, l=_opt, scaled=st.booleans())
        def window(self, ci, o, l, scaled):
            self._do(['window', ci, o, l, scaled])

        @rule(ci=_small, m=_small)
        def values(self, ci, m):
            self._do(['values', ci, m])

        @rule(ci=_small)
        def new_channel_iter(self, ci):
            self._do(['citer', ci])

        @rule(deferred=st.booleans())
        def new_file_iter(self, deferred):
            self._do(['fiter', int(deferred)])

        @rule(k=_small)
        def advance(self, k):
            self._do(['next', k])

        @rule(k=_small)
        def advance_again(self, k):
            self._do(['next', k])

        @rule(k=_small)
        def drop(self, k):
            self._do(['drop', k])

        def teardown(self):
            if self.exe is None:
                return
            self.exe.finish()
            case = {'fs': self.fs, 'ops': self.ops}
            rec.begin(case)
            rec.nontrivial(self.exe.nt)
            rec.label(*(S.spec_classes(self.fs) if self.fs.get('_kind') != 'daqmx' else ['daqmx']))
            rec.stat('ops', len(self.ops))
            rec.stat('iterators', len(self.exe.iters))
            for k in set(op[0] for op in self.ops):
                rec.label('op=' + k)
            if len(self.exe.iters) >= 2:
                rec.label('two_or_more_iterators')
            for (clause, msg, key) in self.exe.viol:
                rec.violation(clause, msg, key=key)
            rec.end()
    return Machine


def _run_machines(n_total, file_strategy, steps):
    def fn(shard, nshards, seed, rec):
        n = n_total // nshards + (1 if shard < n_total % nshards else 0)
        if n <= 0:
            return
        M = make_machine(rec, file_strategy, steps)
        run_state_machine_as_test(
            hypothesis.seed(seed)(M),
            settings=settings(max_examples=n, stateful_step_count=steps, database=None, deadline=None,
                              phases=[Phase.generate], suppress_health_check=list(HealthCheck),
                              report_multiple_bugs=False))
    return fn


# ---------------------------------------------------------------------------------------------
# model-free variant: every operation on the shared open file against the same operation on a freshly opened file

def _norm(x):
    from vf.observe import le_bytes, raw_ts_pairs
    from nptdms.timestamp import TimestampArray, TdmsTimestamp
    if isinstance(x, TimestampArray):
        return ('tsarray', raw_ts_pairs(x))
    if isinstance(x, TdmsTimestamp):
        return ('ts', x.seconds, x.second_fractions)
    if isinstance(x, np.ndarray):
        if x.dtype == object:
            return ('objarray', list(x))
        return ('ndarray', x.dtype.newbyteorder('=').str, tuple(x.shape), le_bytes(x))
    if isinstance(x, (list, tuple)):
        return (type(x).__name__, [_norm(v) for v in x])
    if isinstance(x, np.generic):
        return ('scalar', x.dtype.str, x.tobytes())
    return (type(x).__name__, repr(x))


def _apply_diff_op(tf, paths, op, iters):
    from vf.model import split_path
    kind = op[0]
    p = paths[op[1] % len(paths)]
    g, c = split_path(p)
    ch = tf[g][c]
    n = len(ch)
    if kind == 'index':
        if n == 0:
            return None
        return ch[op[2] % (2 * n) - n]
    if kind == 'slice':
        a, b = op[2] % (n + 3) - 1, op[3] % (n + 3) - 1
        return ch[a:b:op[4]]
    if kind == 'window':
        return ch.read_data(op[2] % (n + 2), None if op[3] is None else op[3] % (n + 2))
    if kind == 'chunk':
        # the k-th chunk of a fresh channel stream, its content read several times from the same chunk object
        k = op[2]
        for j, chunk in enumerate(ch.data_chunks()):
            if j == k:
                def snap(x):
                    return x.copy() if isinstance(x, np.ndarray) else list(x)       # a copy: later accesses must not matter
                first = snap(chunk[:])
                return [first, len(chunk), list(chunk)[:2], snap(chunk[:]), snap(chunk[0:1])]
        return None
    raise KeyError(kind)


def check_diff(case, rec):
    from nptdms import TdmsFile
    if case['kind'] == 'scaled':
        from props.C13 import build_file
        fs, _graph = build_file(case['scaled'])
        rec.label('scaled_channel')
    elif case['kind'] == 'foreign_index':
        fs = case['fs']
    else:
        fs = case['fs']
        segs = fs['segments']
        k = case['trim'][0] % len(segs)
        size = sum(nn * tsize(t) for (_p, t, nn) in segs[k].get('active') or []) * segs[k].get('nchunks', 0)
        if size > 1:
            fs = {'segments': [dict(sg, trim_raw=1 + case['trim'][1] % (size - 1)) if i == k else sg
                               for i, sg in enumerate(segs)]}
            rec.label('short_final_chunk_%s' % ('in_last_segment' if k == len(segs) - 1 else 'in_middle_segment'))
    data, _i, _l = encode_file(fs)
    paths = sorted(set(p for sg in fs['segments'] for (p, _t, _n) in sg.get('active') or []))
    if not paths:
        return
    rec.nontrivial(len(case['ops']) >= 2)
    scratch = None
    if case.get('foreign_index') is not None:
        # the data file sits next to the .tdms_index of ANOTHER file: reads that notice it raise - every time, not only once
        from vf.files import scratch_dir
        _d2, other_index, _l2 = encode_file(case['foreign_index'], with_index=True)
        scratch = scratch_dir()
        d = scratch.__enter__()
        src = os.path.join(d, 'x.tdms')
        with open(src, 'wb') as f:
            f.write(data)
        with open(src + '_index', 'wb') as f:
            f.write(other_index)
        rec.label('index_file_of_another_file')

        def source():
            return src
    else:
        def source():
            return io.BytesIO(data)
    try:
        shared = TdmsFile.open(source(), raw_timestamps=True)
    except Exception as e:      # noqa
        if scratch is not None:
            scratch.__exit__(None, None, None)
            rec.stat('open_raised')
            return
        rec.violation('open:raised', describe_exc(e), key=exc_key(e))
        return
    try:
        for i, op in enumerate(case['ops']):
            rec.label('op=' + op[0])
            try:
                with TdmsFile.open(source(), raw_timestamps=True) as fresh:
                    want = ('ok', _norm(_apply_diff_op(fresh, paths, op, None)))
            except Exception as e:      # noqa
                want = ('raised', type(e).__name__)
            try:
                got = ('ok', _norm(_apply_diff_op(shared, paths, op, None)))
            except Exception as e:      # noqa
                got = ('raised', type(e).__name__)
            if got != want:
                rec.violation('history:' + op[0], 'operation %d %r after %r gives %s, on a freshly opened file %s' % (
                    i, op, case['ops'][:i], str(got)[:160], str(want)[:160]))
                return
            if op[0] == 'chunk' and got[0] == 'ok' and got[1][0] == 'list' and len(got[1][1]) == 5:
                # one delivered chunk object read again: it delivers what it delivered the first time
                first, _n, _items, again, head = got[1][1]
                if again != first:
                    rec.violation('history:chunk_reaccess', 'operation %d %r: reading the same chunk object a second time gives %s, '
                                  'the first time %s' % (i, op, str(again)[:120], str(first)[:120]))
                    return
    finally:
        shared.close()
        if scratch is not None:
            scratch.__exit__(None, None, None)


@st.composite
def diff_cases(draw):
    ops = []
    for _ in range(draw(st.integers(2, 10))):
        kind = draw(st.sampled_from(['index', 'index', 'slice', 'window', 'chunk']))
        ci = draw(st.integers(0, 3))
        if kind == 'index':
            ops.append(['index', ci, draw(st.one_of(st.sampled_from([-1, 0, 1]), st.integers(0, 200)))])
        elif kind == 'slice':
            ops.append(['slice', ci, draw(st.integers(0, 60)), draw(st.integers(0, 60)), draw(st.sampled_from([None, 1, 2, -1]))])
        elif kind == 'window':
            ops.append(['window', ci, draw(st.integers(0, 60)), draw(st.one_of(st.none(), st.integers(0, 60)))])
        else:
            ops.append(['chunk', ci, draw(st.integers(0, 3))])
    if draw(st.integers(0, 2)) == 0:
        from props.C13 import cases as c13_cases
        return {'diff': True, 'kind': 'scaled', 'scaled': draw(c13_cases(noop=True)), 'ops': ops}
    fs = draw(S.file_spec(min_segments=1, max_segments=3, min_channels=2, max_channels=3, max_n=4, max_chunks=3, props=False,
                          zero_n=False, absent=False, types=['i8', 'i16', 'i32', 'u64', 'f32', 'f64', 'ts'], values='unique',
                          names='simple', nodata_entries=False, interleaved=draw(st.booleans())))
    nseg = len(fs['segments'])
    if draw(st.integers(0, 3)) == 0 and nseg >= 2:
        # same channels, other per-segment lengths: its index file describes other segment positions
        other = {'segments': [dict(sg) for sg in fs['segments']]}
        k = draw(st.integers(0, nseg - 2))
        sg = other['segments'][k]
        if sg.get('nchunks') and sg.get('active'):
            sg['nchunks'] = sg['nchunks'] + 1
            sg['data'] = {p: list(chunks) + [chunks[-1]] for p, chunks in sg['data'].items()}
            return {'diff': True, 'kind': 'foreign_index', 'fs': fs, 'foreign_index': other, 'trim': [0, 0],
                    'ops': ops + [list(o) for o in ops]}
    if draw(st.booleans()):
        # the history starts at the end of a channel (the last value may sit in the incomplete chunk)
        ops.insert(0, ['index', draw(st.integers(0, 3)), -1])
    return {'diff': True, 'kind': 'trim', 'fs': fs,
            'trim': [draw(st.sampled_from([nseg - 1, nseg - 1, 0, 1])), draw(st.integers(0, 10 ** 6))], 'ops': ops}


def _every_scale_type():
    from props.C03 import sensor_scaled_cases
    inner = sensor_scaled_cases()
    ops = [['chunk', 0, 0], ['chunk', 0, 1], ['index', 0, 1], ['chunk', 0, 0], ['window', 0, 1, 2], ['chunk', 0, 2]]

    def fn(shard, nshards):
        for case in inner(shard, nshards):
            yield {'diff': True, 'kind': 'scaled', 'scaled': case, 'ops': ops}
    return fn


def jobs(tier):
    if tier == 'quick':
        return [Job('histories', 'custom', _run_machines(6000, _file_strategy, 30)),
                Job('chunk_reaccess_every_scale_type', 'enum', _every_scale_type(), exhaustive=True, check=check_diff,
                    note='every scale type of the C14 matrix x 3 raw types: chunk objects read repeatedly, between other reads'),
                Job('against_fresh_file', 'hyp', diff_cases, n=2500, check=check_diff,
                    note='files with an incomplete final chunk in some segment, and scaled channels: each operation of a short '
                         'history (incl. repeated access to one chunk object) against the same operation on a freshly opened file'),
                Job('long_file_histories', 'custom', _run_machines(48, _long_strategy, 20)),
                Job('twin_offset_table_histories', 'custom', _run_machines(64, _twin_strategy, 20)),
                Job('daqmx_histories', 'custom', _run_machines(800, _daqmx_strategy(), 25))]
    return [Job('histories', 'custom', _run_machines(150000, _file_strategy, 50)),
            Job('chunk_reaccess_every_scale_type', 'enum', _every_scale_type(), exhaustive=True, check=check_diff),
            Job('against_fresh_file', 'hyp', diff_cases, n=80000, check=check_diff),
            Job('long_file_histories', 'custom', _run_machines(3000, _long_strategy, 40)),
            Job('twin_offset_table_histories', 'custom', _run_machines(3000, _twin_strategy, 40)),
            Job('daqmx_histories', 'custom', _run_machines(30000, _daqmx_strategy(), 40))]
