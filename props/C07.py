"""C07 - What TdmsWriter writes is what TdmsFile reads."""
import io
import math

import numpy as np
from hypothesis import strategies as st

from vf.harness import Job, describe_exc, exc_key
from vf import wprog as W
from vf.files import scratch_dir
from vf.observe import compare_values
from vf.parse import parse_file, StructuralError
from vf.model import split_path, make_path

ID = 'C07'
LEVEL = 'exploration'
RULE = ("Hypothesis draws write programs: 1-2 writer sessions (first 'w', later 'a'; path or stream destination; index file "
        "off/on; version 4712/4713), 0-3 write_segment calls each with 0-4 root/group/channel objects; channel data as "
        "ndarrays of 13 dtypes (incl. empty and strided), datetime64[us|s] arrays, lists of ints pinned to each inference "
        "bracket, floats, strs, bools, datetimes, object arrays of str; properties of every supported value kind (ints at "
        "2^31/2^63 boundaries, floats incl. NaN/inf, bool, np.bool_, str, datetime, datetime64 in 3 units, TdmsTimestamp, "
        "NumPy scalars, explicit nptdms.types wrappers) with arbitrary Unicode names. Oracle: a dictionary model of the "
        "program (concatenation per channel, last value per property) against TdmsFile.read, plus property TDMS type codes "
        "read from the bytes by the independent parser. Non-trivial: >=2 segments touch one channel, or a property is "
        "re-written, or there is a session boundary."
        ' Every accepted program is also read lazily (TdmsFile.open, channels first-to-last and last-to-first, plus '
        'the window holding each single write); further jobs write long arrays whose lengths lie on and next to '
        'powers of two (512..196608 values, path and stream targets) and 100-140 segments with twin channels; '
        'programs may overwrite an existing file or use one writer object for all sessions.'
        ' write_segment receives lists, tuples or one-shot iterators.'
        ' Wide programs (100-320 channel objects per call, up to 300 properties per object), datetime64[ns] / [ms] '
        'data and properties, names and texts containing the segment tags, names differing only in case, and re-used '
        'objects whose properties are changed in place are included.')
ASSUMPTIONS = [
    "programs the writer rejects are outside the statement (acceptance rate is measured; < 95% makes the run inconclusive)",
    "one data type per channel over the program (lists of ints are pinned to one inference bracket)",
    "for list inputs only values are compared (the writer chooses the stored width)",
    "independent parser vf/parse.py supplies property type codes",
]


def dt64_from_us(us):
    return np.datetime64('1904-01-01T00:00:00', 'us') + np.timedelta64(us, 'us')


def prop_value_ok(t, exp, got_default, got_raw):
    if t == 'ts':
        mode, v = exp
        if mode == 'us':
            return isinstance(got_default, np.datetime64) and got_default == dt64_from_us(v) \
                and np.datetime_data(got_default.dtype)[0] == 'us'
        return getattr(got_raw, 'seconds', None) == v[0] and getattr(got_raw, 'second_fractions', None) == v[1]
    g = got_default
    if t == 'str':
        return isinstance(g, str) and g == exp
    if t == 'bool':
        return isinstance(g, (bool, np.bool_)) and bool(g) == exp
    if t in ('f32', 'f64'):
        if not isinstance(g, float):
            return False
        if math.isnan(exp):
            return math.isnan(g)
        return g == exp and math.copysign(1, g) == math.copysign(1, exp)
    return isinstance(g, int) and not isinstance(g, bool) and g == exp


def nontrivial(prog):
    nseg = sum(1 for c in prog['sessions'] for call in c if not isinstance(call, dict))
    if len([s for s in prog['sessions'] if s]) >= 2:
        return True
    seen = {}
    pseen = set()
    for calls in prog['sessions']:
        for call in calls:
            if isinstance(call, dict):
                continue
            for o in call:
                key = (o['kind'], o.get('group'), o.get('channel'))
                if o['kind'] == 'channel':
                    seen[key] = seen.get(key, 0) + 1
                    if seen[key] >= 2:
                        return True
                for (n, _k, _v) in o.get('props') or []:
                    if (key, n) in pseen:
                        return True
                    pseen.add((key, n))
    return False


def check(case, rec):
    from nptdms import TdmsFile
    prog = case
    with scratch_dir() as d:
        try:
            res = W.run_program(prog, d)
        except Exception as e:      # noqa  (anything outside write_segment/ChannelObject raising is the writer failing)
            rec.violation('writer:raised', describe_exc(e), key=exc_key(e))
            return
    if not res['accepted']:
        rec.stat('programs_rejected')
        rec.label('rejected:' + type(res['error']).__name__)
        return
    rec.stat('programs_accepted')
    if not any(not isinstance(call, dict) for calls in prog['sessions'] for call in calls):
        rec.label('no_segment_written')     # nothing was written: there is no TDMS file to read
        return
    rec.nontrivial(nontrivial(prog))
    rec.label('dest=' + prog['dest'], 'index=%s' % prog['index'], 'sessions=%d' % len(prog['sessions']))
    model = res['model']
    if model.rejected_calls:
        rec.label('with_rejected_calls_in_between')
    data = res['data']
    tf = verify(rec, model, data, '', True)
    if tf is not None and prog.get('rewrite'):
        # second phase: the TdmsGroup / TdmsChannel objects of the file just read are themselves written to a new file
        from nptdms import TdmsWriter, RootObject
        rec.label('rewrite_of_read_objects')
        out = io.BytesIO()

        def rewrite():
            with TdmsWriter(out) as w:
                objs = [RootObject(tf.properties)]
                for g in tf.groups():
                    objs.append(g)
                    objs.extend(g.channels())
                if prog['rewrite'] == 'one_segment':
                    w.write_segment(objs)
                else:
                    for o in objs:
                        w.write_segment([o])
        ok, _r = rec.guard('rewrite', rewrite)
        if ok:
            verify(rec, model, out.getvalue(), 'rewrite:', False)


def channel_msgs(rec, tag, p, t, writes, got, raw_reader):
    """differences between what was read for channel p and the concatenation of `writes` ([] when equal)"""
    if t == 'str':
        exp = [s for w in writes for s in w[1]]
        return compare_values('str', exp, got, 'channel %s' % p)
    if t == 'ts':
        exp = [v for w in writes for v in w[1]]
        want = np.array([dt64_from_us(v) for v in exp], dtype='datetime64[us]')
        if np.asarray(got).dtype != np.dtype('<M8[us]'):
            return ['channel %s: dtype %s, expected datetime64[us]' % (p, np.asarray(got).dtype)]
        if len(got) != len(want) or not bool(np.all(np.asarray(got) == want)):
            bad = [i for i in range(min(len(got), len(want))) if got[i] != want[i]][:3]
            return ['channel %s: %d timestamps read, %d written; differ at %r: got %r expected %r' % (
                p, len(got), len(want), bad, [str(got[i]) for i in bad], [str(want[i]) for i in bad])]
        if raw_reader is not None:
            # the same data read as raw timestamps: whole seconds since 1904 (negative before the epoch) must match
            ok2, raw = rec.guard(tag + 'read_channel', raw_reader)
            if ok2 and len(raw) == len(exp):
                secs = [int(x) for x in np.asarray(raw['seconds'])] if len(raw) else []
                want_secs = [v // 10 ** 6 for v in exp]
                if secs != want_secs:
                    return ['channel %s: raw timestamp seconds %r, expected %r' % (p, secs[:4], want_secs[:4])]
        return []
    if t == 'intlist':
        exp = [v for w in writes for v in w[1]]
        g_list = [int(x) for x in got]
        return [] if g_list == exp else ['channel %s (int list): got %r expected %r' % (p, g_list[:6], exp[:6])]
    exp = b''.join(w[1] for w in writes)
    return compare_values(t, exp, got, 'channel %s' % p)


def verify(rec, model, data, tag, check_codes):
    from nptdms import TdmsFile
    ok, tf = rec.guard(tag + 'read', lambda: TdmsFile.read(io.BytesIO(data)))
    if not ok:
        return None
    ok, tfr = rec.guard(tag + 'read', lambda: TdmsFile.read(io.BytesIO(data), raw_timestamps=True))
    if not ok:
        return None
    lazy = lazy_raw = None
    if check_codes:
        ok, lazy = rec.guard(tag + 'open', lambda: TdmsFile.open(io.BytesIO(data)))
        ok2, lazy_raw = rec.guard(tag + 'open', lambda: TdmsFile.open(io.BytesIO(data), raw_timestamps=True))
        if not (ok and ok2):
            return None
    segs = None
    if check_codes:
        try:
            segs = parse_file(data)
        except StructuralError as e:
            rec.stat('unparsable_by_strict_parser')
    codes = {}
    if segs is not None:
        for s in segs:
            for o in s['objects']:
                for p in o['props']:
                    codes[(o['path'], p['name'])] = p['type_code']
    # ---- channels
    for (g, c) in model.order:
        p = make_path(g, c)
        writes = model.writes[p]
        for f in set(w[0] for w in writes):
            rec.label('form_type=' + f)
        try:
            ch = tf[g][c]
        except KeyError:
            rec.violation(tag + 'names', 'channel (%r, %r) not found after reading; groups=%r' % (g, c, [x.name for x in tf.groups()]))
            continue
        if ch.name != c or ch.group_name != g:
            rec.violation(tag + 'names', 'channel (%r, %r) reports name=%r group_name=%r' % (g, c, ch.name, ch.group_name))
        t = writes[0][0]
        if any(w[0] != t for w in writes):
            continue    # generator keeps one type per channel; defensive
        ok, got = rec.guard(tag + 'read_channel', lambda: ch[:])
        if not ok:
            continue
        msgs = channel_msgs(rec, tag, p, t, writes, got, lambda: tfr[g][c][:])
        for m in msgs:
            rec.violation(tag + 'channel_data:' + ('list' if t == 'intlist' else t), m)
        if msgs or lazy is None:
            continue
        # the same through a lazily opened file: whole channel, and the window holding each single write
        ok, got_l = rec.guard(tag + 'lazy_read_channel', lambda: lazy[g][c][:])
        if not ok:
            continue
        for m in channel_msgs(rec, tag, p, t, writes, got_l, lambda: lazy_raw[g][c][:]):
            rec.violation(tag + 'lazy_channel_data:' + ('list' if t == 'intlist' else t), 'TdmsFile.open: ' + m)
            break
        else:
            off = 0
            for k, w in enumerate(writes):
                nw = len(w[1]) if t in ('str', 'ts', 'intlist') else len(w[1]) // W.T_SIZE[t]
                if nw and len(writes) > 1:
                    ok, win = rec.guard(tag + 'lazy_read_window', lambda: lazy[g][c].read_data(off, nw))
                    if ok:
                        wm = channel_msgs(rec, tag, p, t, [w], win, None)
                        if wm:
                            rec.violation(tag + 'lazy_window:' + ('list' if t == 'intlist' else t),
                                          'TdmsFile.open read_data(%d,%d) (the values of write %d): %s' % (off, nw, k, wm[0]))
                            break
                off += nw
    # ---- properties
    for p, pd in model.props.items():
        comps = split_path(p)
        try:
            if len(comps) == 0:
                gd, gr = tf.properties, tfr.properties
            elif len(comps) == 1:
                gd, gr = tf[comps[0]].properties, tfr[comps[0]].properties
            else:
                gd, gr = tf[comps[0]][comps[1]].properties, tfr[comps[0]][comps[1]].properties
        except KeyError:
            rec.violation(tag + 'names', 'object %s not found after reading' % p)
            continue
        if sorted(gd.keys()) != sorted(pd.keys()):
            rec.violation(tag + 'property_names', '%s: property names %r, expected %r' % (p, list(gd.keys()), list(pd.keys())))
            continue
        for name, (t, exp) in pd.items():
            rec.label('prop_type=' + t)
            if t == 'ts' and exp[0] == 'raw' and not check_codes:
                # the objects were read without raw_timestamps: sub-microsecond fractions cannot survive the second write
                continue
            if not prop_value_ok(t, exp, gd[name], gr[name]):
                rec.violation(tag + 'property_value:' + t, '%s property %r: read %r / raw %r, written %r as %s' % (
                    p, name, gd[name], gr[name], exp, t))
            if segs is not None:
                code = codes.get((p, name))
                if code != W.T_CODE[t]:
                    rec.violation('property_type:' + t, '%s property %r stored with type code %r, expected 0x%x (%s)' % (
                        p, name, None if code is None else hex(code), W.T_CODE[t], t))
    # groups used exist
    for (g, c) in model.order:
        if g not in tf:
            rec.violation(tag + 'names', 'group %r missing' % g)
    for f in (lazy, lazy_raw):
        if f is not None:
            f.close()
    if check_codes and len(model.order) > 1:
        # once more on a fresh lazily opened file with the channels read in the opposite order
        ok, rev = rec.guard(tag + 'open', lambda: TdmsFile.open(io.BytesIO(data)))
        if ok:
            with rev:
                for (g, c) in reversed(model.order):
                    p = make_path(g, c)
                    writes = model.writes[p]
                    t = writes[0][0]
                    ok, got_l = rec.guard(tag + 'lazy_read_channel', lambda: rev[g][c][:])
                    if ok:
                        for m in channel_msgs(rec, tag, p, t, writes, got_l, None):
                            rec.violation(tag + 'lazy_channel_data:' + ('list' if t == 'intlist' else t),
                                          'TdmsFile.open, channels read last to first: ' + m)
                            break
    return tf


def post_check(stats, labels):
    acc = stats.get('programs_accepted', 0)
    rej = stats.get('programs_rejected', 0)
    if acc + rej and acc < 0.95 * (acc + rej):
        return 'only %d of %d generated programs were accepted by the writer (< 95%%): inconclusive' % (acc, acc + rej)
    return None


def jobs(tier):
    if tier == 'quick':
        return [Job('programs', 'hyp', lambda: W.program(), n=4000),
                Job('long_arrays', 'hyp', lambda: W.big_program(), n=160,
                    note='array lengths on and next to powers of two between 512 and 196608 values'),
                Job('wide_programs', 'hyp', lambda: W.wide_program(), n=32,
                    note='100-320 channel objects per call, objects with up to 300 properties'),
                Job('many_segments', 'hyp', lambda: W.many_segment_program(), n=320,
                    note='100-140 write_segment calls; two channels whose per-call lengths first differ after call 97')]
    return [Job('programs', 'hyp', lambda: W.program(), n=120000),
            Job('long_programs', 'hyp', lambda: W.program(max_sessions=3, max_calls=5, max_objs=6, max_len=40), n=20000),
            Job('long_arrays', 'hyp', lambda: W.big_program(), n=4000),
            Job('wide_programs', 'hyp', lambda: W.wide_program(), n=800),
            Job('many_segments', 'hyp', lambda: W.many_segment_program(), n=2500)]
