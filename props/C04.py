"""C04 - Windows, slices and indices mean what they mean on the full array."""
import io

import numpy as np
from hypothesis import strategies as st

from vf.harness import Job
from vf import strategies as S
from vf.encode import encode_file
from vf.expect import expected_content
from vf.observe import compare_values, compare_scalars
from vf.model import split_path, tsize

ID = 'C04'
LEVEL = 'exploration'
RULE = ("Hypothesis draws files biased to boundary arithmetic (2-6 segments, 1-4 chunks, 0-4 values per chunk varying "
        "per segment, channels absent from leading / middle / trailing segments, strings, interleaved, optional cut "
        "inside the last segment's raw data). Per channel with len <= 7 ALL windows (offset 0..len+2 x length "
        "None,0..len+2), ALL slices (start/stop in [-len-2,len+2]+None, step in -3..3+None) and ALL integer indices "
        "in [-len-2,len+1] are evaluated lazily and eagerly; longer channels get 60 Hypothesis-drawn requests. "
        "Oracle: NumPy indexing on the model array (for cut files: on the eager full read). Non-trivial: the "
        "channel has values in >=2 chunks or segments, so windows fall inside chunks and across boundaries."
        ' Every in-range integer index is followed immediately by windows and slices around the element just read (an '
        'integer index leaves a cached chunk behind).'
        ' Shortened interleaved middle segments (content = complete rows) and a job on scaled channels (reference: '
        'full read of a separate fresh file) are included.'
        ' A further job reads files of 2-12 GiB that exist only as a formula (vf.observe.VirtualStream): windows, '
        "slices and indices around byte positions 2^31, 2^32 and 2^33 must return the formula's bytes and fetch no "
        'more than the chunks they overlap.'
        ' Raw-data-only continuation segments repeating the last layout and chunk count, and a job on compressed '
        'encodings (inherited lists / indexes), also cut, are included.')
ASSUMPTIONS = [
    "independent encoder vf/encode.py",
    "negative offset/length are outside the statement (domain offset >= 0)",
    "for truncated files the reference array is the eager full read (metamorphic), its prefix-ness is C06's business",
]

STEPS = [None, 1, 2, 3, -1, -2, -3]


def slice_vals(t, vals, idx):
    """apply a slice / index array to model values (LE bytes or list of str)"""
    if t == 'str':
        a = np.empty((len(vals),), dtype=object)
        for i, s in enumerate(vals):
            a[i] = s
        return list(a[idx])
    sz = tsize(t)
    a = np.frombuffer(bytes(vals), dtype='V%d' % sz)
    return a[idx].tobytes()


def _as_vals(t, arr, raw_ts):
    """turn a full read result back into model values (used as reference for truncated files)"""
    from vf.observe import le_bytes, raw_ts_pairs
    import struct
    if t == 'str':
        return list(arr)
    if t == 'ts':
        return b''.join(struct.pack('<Qq', f, s) for (s, f) in raw_ts_pairs(arr))
    return le_bytes(np.asarray(arr))


def requests_for(n, picks):
    """(windows, slices, indices) to evaluate for a channel of length n"""
    if n <= 7:
        offs = range(0, n + 3)
        lens = [None] + list(range(0, n + 3))
        windows = [(o, l) for o in offs for l in lens]
        bounds = [None] + list(range(-n - 2, n + 3))
        slices = [(a, b, s) for a in bounds for b in bounds for s in STEPS]
        idxs = list(range(-n - 2, n + 2))
        return windows, slices, idxs, True
    windows, slices, idxs = [], [], []
    for (a, b, c) in picks:
        o = a % (n + 3)
        l = None if b % (n + 4) == n + 3 else b % (n + 4)
        windows.append((o, l))
        lo = -n - 2
        span = 2 * n + 6          # values lo..n+2 plus None
        sa = None if a % span == span - 1 else lo + a % span
        sb = None if b % span == span - 1 else lo + b % span
        slices.append((sa, sb, STEPS[c % len(STEPS)]))
        idxs.append(lo + c % (2 * n + 4))
    return windows, slices, idxs, False


def check(case, rec):
    from nptdms import TdmsFile
    if 'scaled' in case:
        return check_scaled(case, rec)
    if case.get('huge'):
        return check_huge(case, rec)
    fs = case['fs']
    ex = expected_content(fs)
    if case.get('plan_picks') is not None:
        # the same content in a compressed physical encoding (inherited object lists and indexes, metadata-less segments)
        from vf import plans as P
        fs, _plans = P.encode_with_plans(fs, lambda i, alts: P.nth_plan(alts, case['plan_picks'][i]))
        rec.label('compressed_encoding')
    data, _i, lay = encode_file(fs)
    cut = case.get('cut')
    truncated = False
    if cut is not None and lay:
        last = lay[-1]
        if last['end'] - last['data_pos'] > 1:
            pos = last['data_pos'] + 1 + cut % (last['end'] - last['data_pos'] - 1)
            data = data[:pos]
            truncated = True
            rec.label('truncated_final_chunk')
    rec.label(*S.spec_classes(fs))
    raw_ts = case['raw_ts'] or truncated     # the metamorphic reference for cut files needs exact values
    ok, tf_e = rec.guard('read', lambda: TdmsFile.read(io.BytesIO(data), raw_timestamps=raw_ts))
    if not ok:
        return
    ok, tf_l = rec.guard('open', lambda: TdmsFile.open(io.BytesIO(data), raw_timestamps=raw_ts))
    if not ok:
        return
    nt = False
    try:
        for p in ex.channel_paths():
            eo = ex.objects[p]
            t = eo['type']
            g, c = split_path(p)
            if truncated:
                if g not in tf_e or c not in tf_e[g]:
                    continue
                che = tf_e[g][c]
                ok, full = rec.guard('read', lambda: che[:])
                if not ok:
                    continue
                if t is None:
                    continue
                vals = _as_vals(t, full, raw_ts)
                n = len(full)
                if len(tf_l[g][c]) != n:
                    rec.violation('length', 'truncated %s: lazy len %d, eager full read %d' % (p, len(tf_l[g][c]), n))
                    continue
            else:
                vals = ex.values(p)
                n = ex.length(p)
            table = [r for r in ex.chunk_table(p) if r[3] > 0]
            if len(table) >= 2:
                nt = True
                segs = [r[0] for r in table]
                present = set(segs)
                if any(s not in present for s in range(min(segs), max(segs) + 1)):
                    rec.label('absent_in_middle_segment')
            windows, slices, idxs, exhaustive = requests_for(n, case['picks'])
            rec.stat('requests', len(windows) + len(slices) + len(idxs))
            rec.label('exhaustive_requests' if exhaustive else 'sampled_requests')
            for mode, tf in (('lazy', tf_l), ('eager', tf_e)):
                ch = tf[g][c]
                check_channel(rec, mode, ch, t, vals, n, p, windows, slices, idxs, raw_ts)
        rec.nontrivial(nt)
    finally:
        tf_l.close()


def check_channel(rec, mode, ch, t, vals, n, p, windows, slices, idxs, raw_ts, scaled_only=False):
    if t is None:
        return
    if len(ch) != n:
        rec.violation('length', '%s len(%s)=%d expected %d' % (mode, p, len(ch), n))
        return
    for (o, l) in windows:
        want = slice_vals(t, vals, slice(o, None if l is None else o + l))
        for scaled in ((True,) if scaled_only else (True, False)):
            ok, got = rec.guard('window:' + mode, lambda: ch.read_data(o, l, scaled=scaled))
            if not ok:
                return
            msgs = compare_values(t, want, got, '%s %s.read_data(%r,%r,scaled=%r) len=%d' % (mode, p, o, l, scaled, n),
                                  raw_ts)
            if msgs:
                rec.violation('window:' + mode, msgs[0])
                return
    for (a, b, s) in slices:
        want = slice_vals(t, vals, slice(a, b, s))
        ok, got = rec.guard('slice:' + mode, lambda: ch[a:b:s])
        if not ok:
            return
        msgs = compare_values(t, want, got, '%s %s[%r:%r:%r] len=%d' % (mode, p, a, b, s, n), raw_ts)
        if msgs:
            rec.violation('slice:' + mode, msgs[0])
            return
    ok, got = rec.guard('slice_step0:' + mode, lambda: ch[0:1:0], allowed=(ValueError,))
    if ok:
        rec.violation('slice_step0:' + mode, '%s %s[0:1:0] returned instead of raising ValueError' % (mode, p))
    for i in idxs:
        in_range = -n <= i < n
        try:
            got = ch[i]
        except IndexError:
            if in_range:
                rec.violation('index:' + mode, '%s %s[%d] raised IndexError, len=%d' % (mode, p, i, n))
                return
            continue
        except Exception as e:      # noqa
            from vf.harness import exc_key, describe_exc
            rec.violation('index:%s:raised' % mode, '%s[%d]: %s' % (p, i, describe_exc(e)), key=exc_key(e))
            return
        if not in_range:
            rec.violation('index:' + mode, '%s %s[%d] returned %r, expected IndexError (len=%d)' % (mode, p, i, got, n))
            return
        msgs = compare_scalars(t, vals, [got], [i % n], '%s %s[%d]' % (mode, p, i), raw_ts)
        if msgs:
            rec.violation('index:' + mode, msgs[0])
            return
        # windows and slices around the element just looked up (an integer index may leave a cached chunk behind)
        k = i % n
        for (o, l) in ((k, None), (k, 1), (max(k - 1, 0), None), (k + 1, None), (0, None), (k, 2)):
            want = slice_vals(t, vals, slice(o, None if l is None else o + l))
            ok, got = rec.guard('window_after_index:' + mode, lambda: ch.read_data(o, l))
            if not ok:
                return
            msgs = compare_values(t, want, got, '%s %s.read_data(%r,%r) right after %s[%d], len=%d' % (mode, p, o, l, p, i, n), raw_ts)
            if msgs:
                rec.violation('window_after_index:' + mode, msgs[0])
                return
        for (a, b, s) in ((k, None, None), (None, k + 1, None), (k, None, 2), (None, None, -1)):
            want = slice_vals(t, vals, slice(a, b, s))
            ok, got = rec.guard('slice_after_index:' + mode, lambda: ch[a:b:s])
            if not ok:
                return
            msgs = compare_values(t, want, got, '%s %s[%r:%r:%r] right after %s[%d], len=%d' % (mode, p, a, b, s, p, i, n), raw_ts)
            if msgs:
                rec.violation('slice_after_index:' + mode, msgs[0])
                return


@st.composite
def cases(draw, **kw):
    opts = dict(min_segments=2, max_segments=6, max_channels=3, max_n=4, max_chunks=4, values='unique',
                props=False, pad=False, nodata_entries=False, names='simple', max_groups=2)
    opts.update(kw)
    fs = draw(S.file_spec(**opts))
    if draw(st.integers(0, 2)) == 0:
        # one interleaved segment before the last one ends in an incomplete chunk (complete rows only are its content)
        fs = draw(S.shorten_interleaved_middle(fs))
    if draw(st.integers(0, 2)) == 0:
        # raw-data-only segments that repeat the last layout and chunk count
        fs = draw(S.with_continuation(fs))
    picks = draw(st.lists(st.tuples(st.integers(0, 10 ** 6), st.integers(0, 10 ** 6), st.integers(0, 10 ** 6)),
                          min_size=60, max_size=60))
    cut = draw(st.one_of(st.none(), st.none(), st.integers(0, 10 ** 6)))
    if cut is not None:
        # C06: a truncated segment with strings is only promised to work in single-chunk segments
        last = fs['segments'][-1]
        if any(t == 'str' for (_p, t, _n) in last['active']):
            cut = None
    return {'fs': fs, 'picks': [list(x) for x in picks], 'cut': cut, 'raw_ts': draw(st.booleans())}


def check_daqmx(case, rec):
    """DAQmx channels: scaled reads give the highest-numbered scaler (NI_Number_Of_Scales) / the typed scaler"""
    from nptdms import TdmsFile
    from vf.daqmx import expected_daqmx
    fs = case['fs']
    data, _i, _l = encode_file(fs)
    exd = expected_daqmx(fs)
    rec.label('daqmx')
    ok, tf_e = rec.guard('read', lambda: TdmsFile.read(io.BytesIO(data)))
    if not ok:
        return
    ok, tf_l = rec.guard('open', lambda: TdmsFile.open(io.BytesIO(data)))
    if not ok:
        return
    nt = False
    try:
        for p, eo in exd.items():
            g, c = split_path(p)
            last = sorted(eo['scalers'])[-1]
            t, vals = eo['scalers'][last]
            n = eo['len']
            if len(eo['chunks']) >= 2:
                nt = True
            windows, slices, idxs, exhaustive = requests_for(n, case['picks'])
            rec.stat('requests', len(windows) + len(slices) + len(idxs))
            for mode, tf in (('lazy', tf_l), ('eager', tf_e)):
                check_channel(rec, mode, tf[g][c], t, vals, n, p, windows, slices, idxs, True, scaled_only=True)
        rec.nontrivial(nt)
    finally:
        tf_l.close()


def check_scaled(case, rec):
    """channels with NI_Scale definitions (C13 graphs): windows, slices and indices of the SCALED data against slices of a
    reference full read taken from a separate, freshly opened file (bit for bit: scaling is elementwise)"""
    from nptdms import TdmsFile
    from props.C13 import build_file
    from props.C03 import DT_TO_T
    from vf.observe import le_bytes
    fs, _graph = build_file(case['scaled'])
    data, _i, _l = encode_file(fs)
    rec.label('scaled_channel', 'raw=' + case['scaled']['type'])
    try:
        with TdmsFile.open(io.BytesIO(data)) as ref_file:
            ref = np.asarray(ref_file['g']['c'][:]).copy()
    except Exception as e:      # noqa
        from vf.harness import exc_key, describe_exc
        rec.violation('read:raised', describe_exc(e), key=exc_key(e))
        return
    t = DT_TO_T.get(ref.dtype.newbyteorder('=').name)
    if t is None:
        return
    vals = le_bytes(ref)
    n = len(ref)
    rec.nontrivial(n >= 2)
    ok, tf_e = rec.guard('read', lambda: TdmsFile.read(io.BytesIO(data)))
    ok2, tf_l = rec.guard('open', lambda: TdmsFile.open(io.BytesIO(data)))
    if not (ok and ok2):
        return
    try:
        windows, slices, idxs, _ex = requests_for(n, case['picks'])
        for mode, tf in (('eager', tf_e), ('lazy', tf_l)):
            check_channel(rec, mode, tf['g']['c'], t, vals, n, "/'g'/'c'", windows, slices, idxs, True, scaled_only=True)
    finally:
        tf_l.close()


@st.composite
def huge_cases(draw):
    """files of 2 - 12 GiB that exist only as a formula (vf.observe.VirtualStream): 64-bit arithmetic of offsets and counts"""
    types = draw(st.lists(st.sampled_from(['u8', 'i16', 'i32', 'f32', 'f64', 'i64']), min_size=1, max_size=3))
    inter = draw(st.booleans())
    n = draw(st.sampled_from([1, 3, 1000, 4096, 65536, 1 << 20]))
    chunk = sum(tsize(t) for t in types) * n
    target = draw(st.sampled_from([2 ** 31, 2 ** 32, 3 * 2 ** 31, 2 ** 33, 3 * 2 ** 32])) + draw(st.integers(-3, 3)) * chunk
    nchunks = max(2, target // chunk)
    reqs = [[draw(st.sampled_from(['window', 'index', 'slice'])), draw(st.integers(0, len(types) - 1)),
             draw(st.sampled_from(['start', 'end', 'b31', 'b32', 'b33', 'any'])), draw(st.integers(-4, 4)),
             draw(st.integers(0, 6))] for _ in range(10)]
    return {'huge': True, 'types': types, 'interleaved': inter, 'n': n, 'nchunks': int(nchunks), 'be': draw(st.booleans()),
            'second_segment': draw(st.booleans()), 'reqs': reqs}


def check_huge(case, rec):
    from nptdms import TdmsFile
    from vf.observe import VirtualStream
    from vf.encode import encode_metadata
    from vf.model import make_path, np_dtype
    import struct
    types, n, nchunks, inter, be = case['types'], case['n'], case['nchunks'], case['interleaved'], case['be']
    paths = [make_path('g', 'c%d' % i) for i in range(len(types))]
    seg = {'be': be, 'entries': [{'path': p, 'hdr': 'full', 'type': t, 'n': n} for p, t in zip(paths, types)]}
    meta = encode_metadata(seg)
    e = '>' if be else '<'
    stride = sum(tsize(t) for t in types)
    raw_len = stride * n * nchunks
    toc = (1 << 1) | (1 << 2) | (1 << 3) | ((1 << 5) if inter else 0) | ((1 << 6) if be else 0)
    lead = b'TDSm' + struct.pack('<I', toc) + struct.pack(e + 'i', 4713) + struct.pack(e + 'QQ', len(meta) + raw_len, len(meta))
    head = lead + meta
    data_pos = len(head)
    size = data_pos + raw_len
    seg_starts = [data_pos]
    counts = [nchunks]
    if case['second_segment']:
        # a second, metadata-less segment of three more chunks: positions continue beyond the first segment's end
        lead2 = b'TDSm' + struct.pack('<I', (1 << 3) | ((1 << 5) if inter else 0) | ((1 << 6) if be else 0)) + \
            struct.pack(e + 'i', 4713) + struct.pack(e + 'QQ', stride * n * 3, 0)
        # the second lead-in must sit at `size`: it cannot be part of the formula, so the stream gets it as an overlay
        overlay = (size, lead2)
        seg_starts.append(size + 28)
        counts.append(3)
        size = size + 28 + stride * n * 3
    else:
        overlay = None
    stream = VirtualStream(head, size)
    if overlay:
        base_content = stream.content

        def content(start, k, _o=overlay, _b=base_content):
            b = bytearray(_b(start, k))
            lo, blob = _o
            a, z = max(start, lo), min(start + len(b), lo + len(blob))
            if a < z:
                b[a - start:z - start] = blob[a - lo:z - lo]
            return bytes(b)
        stream.content = content
    rec.nontrivial(True)
    rec.label('virtual_file', 'interleaved' if inter else 'contiguous', 'size_gib=%d' % (size >> 30))
    total = n * sum(counts)

    def value_bytes(ci, k):
        """bytes (file order) of value k of channel ci"""
        t = types[ci]
        sz = tsize(t)
        col = sum(tsize(x) for x in types[:ci])
        si, kk = 0, k
        while kk >= n * counts[si]:
            kk -= n * counts[si]
            si += 1
        if inter:
            pos = seg_starts[si] + kk * stride + col
        else:
            pos = seg_starts[si] + (kk // n) * (stride * n) + col * n + (kk % n) * sz
        return VirtualStream.pattern(pos, sz).tobytes()
    ok, tf = rec.guard('open', lambda: TdmsFile.open(stream))
    if not ok:
        return
    try:
        chans = [tf['g']['c%d' % i] for i in range(len(types))]
        for ci, ch in enumerate(chans):
            if len(ch) != total:
                rec.violation('length', 'len(%s) = %d, the file declares %d x %d values' % (ch.path, len(ch), sum(counts), n))
                return
        for (kind, ci, where, delta, length) in case['reqs']:
            t = types[ci]
            sz = tsize(t)
            per_byte = {'b31': 2 ** 31, 'b32': 2 ** 32, 'b33': 2 ** 33}
            if where == 'start':
                k = 0
            elif where == 'end':
                k = total - 1
            elif where == 'any':
                k = (delta * 2654435761 + length * 40503) % total
            else:
                # the value whose bytes sit around an absolute file position of 2^31 / 2^32 / 2^33
                frac = per_byte[where] / float(size)
                k = int(total * min(frac, 0.999999))
            k = min(max(k + delta, 0), total - 1)
            stream.log = []
            ch = chans[ci]
            try:
                if kind == 'index':
                    got = np.asarray([ch[k if delta % 2 else k - total]])
                    a, b = k, k + 1
                elif kind == 'window':
                    got = np.asarray(ch.read_data(k, length))
                    a, b = k, min(k + length, total)
                else:
                    got = np.asarray(ch[k:k + length])
                    a, b = k, min(k + length, total)
            except Exception as ex:      # noqa
                from vf.harness import exc_key, describe_exc
                rec.violation('huge:raised', '%s on a %d GiB file: %s' % ((kind, ci, k, length), size >> 30, describe_exc(ex)),
                              key=exc_key(ex))
                return
            want = b''.join(value_bytes(ci, j) for j in range(a, b))
            if be:
                want = b''.join(want[i:i + sz][::-1] for i in range(0, len(want), sz))
            from vf.observe import le_bytes
            if len(got) != b - a or le_bytes(got) != want:
                rec.violation('huge:values', '%s values [%d, %d) of channel %d (%s, %s, %d GiB): got %r' % (
                    kind, a, b, ci, t, 'interleaved' if inter else 'contiguous', size >> 30, got[:4]))
                return
            # bounded by the request, not by the file: at most the chunks overlapping the request (+ lead-ins)
            nbytes = sum(x[1] for x in stream.log)
            touched = (max(b - a, 1) // n + 2) * stride * n + 4096
            if nbytes > touched:
                rec.violation('huge:bytes_read', '%s of %d values read %d bytes from the stream (chunk size %d)' % (
                    kind, b - a, nbytes, stride * n))
                return
    finally:
        tf.close()


@st.composite
def plan_cases(draw):
    from props.C02 import history
    h = draw(history(max_segments=6, max_channels=3))
    picks = draw(st.lists(st.tuples(st.integers(0, 10 ** 6), st.integers(0, 10 ** 6), st.integers(0, 10 ** 6)),
                          min_size=40, max_size=40))
    cut = draw(st.one_of(st.none(), st.integers(0, 10 ** 6)))
    last = h['fs']['segments'][-1]
    if cut is not None and any(t == 'str' for (_p, t, _n) in last['active']):
        cut = None
    return {'fs': h['fs'], 'plan_picks': h['picks'], 'picks': [list(x) for x in picks], 'cut': cut, 'raw_ts': True}


@st.composite
def scaled_cases(draw):
    from props.C13 import cases as c13_cases
    picks = draw(st.lists(st.tuples(st.integers(0, 10 ** 6), st.integers(0, 10 ** 6), st.integers(0, 10 ** 6)),
                          min_size=20, max_size=20))
    return {'scaled': draw(c13_cases(noop=True)), 'picks': [list(x) for x in picks]}


@st.composite
def daqmx_cases(draw):
    from vf.daqmx import daqmx_file
    fs = draw(daqmx_file(max_len=4, max_chunks=3))
    picks = draw(st.lists(st.tuples(st.integers(0, 10 ** 6), st.integers(0, 10 ** 6), st.integers(0, 10 ** 6)),
                          min_size=60, max_size=60))
    return {'fs': fs, 'picks': [list(x) for x in picks]}


@st.composite
def twin_cases(draw):
    fs = draw(S.twin_long_file())
    picks = draw(st.lists(st.tuples(st.integers(0, 10 ** 6), st.integers(0, 10 ** 6), st.integers(0, 10 ** 6)),
                          min_size=60, max_size=60))
    return {'fs': fs, 'picks': [list(x) for x in picks], 'cut': None, 'raw_ts': True}


def jobs(tier):
    if tier == 'quick':
        return [Job('files', 'hyp', lambda: cases(), n=4000),
                Job('long_files_shared_offset_prefix', 'hyp', twin_cases, n=64),
                Job('daqmx_files', 'hyp', daqmx_cases, n=700, check=check_daqmx),
                Job('scaled_channels', 'hyp', scaled_cases, n=700, check=check_scaled),
                Job('inherited_metadata_files', 'hyp', plan_cases, n=1200,
                    note='C02 histories in a compressed encoding (inherited lists / indexes, metadata-less segments), also cut'),
                Job('virtual_files_of_2_to_12_GiB', 'hyp', huge_cases, n=160, check=check_huge,
                    note='files that exist only as a formula: windows, slices and indices around byte positions 2^31, 2^32, 2^33')]
    return [Job('files', 'hyp', lambda: cases(), n=40000),
            Job('long_files_shared_offset_prefix', 'hyp', twin_cases, n=2000),
            Job('daqmx_files', 'hyp', daqmx_cases, n=20000, check=check_daqmx),
            Job('scaled_channels', 'hyp', scaled_cases, n=20000, check=check_scaled),
            Job('inherited_metadata_files', 'hyp', plan_cases, n=30000),
            Job('virtual_files_of_2_to_12_GiB', 'hyp', huge_cases, n=4000, check=check_huge),
            Job('wider', 'hyp', lambda: cases(max_segments=8, max_n=9, max_chunks=5, max_channels=4), n=10000)]
