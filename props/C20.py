"""C20 - npTDMS closes the files it opened, only those, and fails loudly afterwards (fault enumeration)."""
import gc
import io
import os
import resource

import numpy as np
from hypothesis import strategies as st

from vf.harness import Job, describe_exc, exc_key
from vf import strategies as S
from vf.encode import encode_file
from vf.expect import expected_content
from vf.observe import open_fds, compare_scalars, compare_values
from vf.files import scratch_dir
from vf.model import split_path, make_path

ID = 'C20'
LEVEL = 'fault_enumeration'
RULE = ("Hypothesis draws a valid file (C01 generator) and optionally a fault: bad tag in segment k, truncation at a drawn "
        "offset, unknown type code, dimension 2, unparsable object path, 'same' header on an unseen object, data type change, "
        "wrong raw-index length, huge value count, random byte flips; and an index-file situation: none / matching / index of "
        "another file / index with a bad tag / truncated index. Each case runs, for the file given as path and as caller "
        "stream (BytesIO and a real file object), the histories: read; read_metadata; with open(): reads; open, read, close, "
        "read-after-close (x2 APIs), close, close; defragment to a path (with index) ; TdmsWriter with-block (normal exit and "
        "exception inside). After every step /proc/self/fd is compared (gc disabled, exception object kept alive): no "
        "descriptor below the scratch directory may remain except the caller's own; caller streams stay open; repeated "
        "close() is silent; a read after close raises or returns the correct value. Non-trivial: a case in which some "
        "API call raised or an index file was present. The thorough tier adds an atheris (libFuzzer) campaign over raw bytes."
        " Caller streams include an unbuffered raw file object (checked again after the call's exception has been "
        'released); when an index file exists it is also given directly as the path.'
        ' The TdmsFile constructor is exercised in its argument combinations (read_metadata_only, keep_open) with '
        'close() and with-blocks; pathlib.Path sources are included.'
        ' A large-chunk job (63 KiB .. 2 MiB chunks, held chunks and index results, optional memmap_dir) judges '
        'descriptors of the .tdms / .tdms_index files after close().'
        ' Two files are alive at once: reading and closing the second must neither close nor leak descriptors of the '
        'first.')
ASSUMPTIONS = [
    "Linux /proc/self/fd accounting",
    "TdmsFile.open() itself raising is outside the statement (reported as a statistic)",
    "RLIMIT_AS caps each worker so absurd counts raise MemoryError instead of exhausting the sandbox",
]

_limited = [False]


def _limit_memory():
    if not _limited[0]:
        _limited[0] = True
        try:
            resource.setrlimit(resource.RLIMIT_AS, (12 << 30, 12 << 30))
        except Exception:       # noqa
            pass


def apply_fault(fs, fault):
    """returns (file spec or None, post-encoding byte mutator or None)"""
    kind = fault[0]
    segs = [dict(s) for s in fs['segments']]
    out = {'segments': segs}
    post = None
    k = fault[1] % len(segs)
    if kind == 'none':
        return fs, None
    if kind == 'bad_tag':
        segs[k]['tag'] = b'TDSx'
    elif kind == 'truncate':
        x = fault[2]
        post = lambda b: b[:4 + x % max(1, len(b) - 3)]     # noqa
    elif kind == 'flip':
        xs = fault[2:]
        def post(b, xs=xs):     # noqa
            ba = bytearray(b)
            for x in xs:
                pos = 4 + x % max(1, len(ba) - 4) if len(ba) > 4 else 0
                ba[pos % len(ba)] ^= 1 << (x % 8)
            return bytes(ba)
    else:
        # entry-level faults: need a segment with a full entry
        target = None
        for si in list(range(k, len(segs))) + list(range(0, k)):
            for ei, e in enumerate(segs[si].get('entries') or []):
                if e['hdr'] == 'full':
                    target = (si, ei)
                    break
            if target:
                break
        if kind == 'bad_path':
            si = k
            ents = list(segs[si].get('entries') or [])
            ents.append({'path': ['no leading slash', "/'unterminated", "/'a'x'b'", "/'a'/'b'/'c'"][fault[2] % 4],
                         'hdr': 'nodata'})
            segs[si]['entries'] = ents
        elif kind == 'same_unseen':
            ents = list(segs[k].get('entries') or [])
            ents.append({'path': make_path('zz', 'never_seen'), 'hdr': 'same'})
            segs[k]['entries'] = ents
        elif target is None:
            return fs, None
        else:
            si, ei = target
            ents = [dict(e) for e in segs[si]['entries']]
            e = ents[ei]
            if kind == 'unknown_type':
                e['type_code'] = [0x99, 0x0B, 0x1B, 0xFFFFFFFE][fault[2] % 4]
            elif kind == 'dim2':
                e['dim'] = 2
            elif kind == 'index_len':
                e['index_len'] = [0x15, 0x1D, 7][fault[2] % 3]
            elif kind == 'huge_count':
                e['n'] = 2 ** [33, 40, 62][fault[2] % 3]
            elif kind == 'type_change':
                p = e['path']
                bad = {'be': False, 'interleaved': False, 'version': 4713, 'meta': True, 'newlist': True,
                       'entries': [{'path': p, 'hdr': 'full', 'type': 'c128' if e['type'] != 'c128' else 'i8', 'n': 1}],
                       'active': [[p, 'c128' if e['type'] != 'c128' else 'i8', 1]], 'nchunks': 1,
                       'data': {p: [bytes(16) if e['type'] != 'c128' else b'\x01']}}
                segs.append(bad)
            segs[si]['entries'] = ents
    return out, post


class Acct(object):
    def __init__(self, rec, base):
        self.rec = rec
        self.base = base
        self.raised = 0

    def expect_clean(self, before, clause, what):
        now = open_fds(self.base)
        extra = {fd: t for fd, t in now.items() if fd not in before}
        if extra:
            self.rec.violation('fd_leak:' + clause, '%s: descriptors left open: %r' % (what, sorted(extra.values())))
        return not extra


def run_reads(rec, acct, tf, ex, clause):
    """a few reads on an open file; returns values read (for after-close comparison)"""
    got = {}
    if ex is None:
        return got
    for p in ex.channel_paths()[:2]:
        g, c = split_path(p)
        try:
            ch = tf[g][c]
            if len(ch):
                got[p] = ch[0]
                ch[:]
        except Exception:       # noqa   malformed files may fail on read; that is fine here
            acct.raised += 1
    return got


def check(case, rec):
    from nptdms import TdmsFile, TdmsWriter, RootObject, ChannelObject
    if 'bytes' in case:
        return check_bytes(case, rec)
    if 'atheris_campaign' in case:
        return
    if case.get('large'):
        return check_large(case, rec)
    _limit_memory()
    fs0 = case['fs']
    fault = case['fault']
    fs, post = apply_fault(fs0, fault)
    data, index, _lay = encode_file(fs, with_index=True)
    if post is not None:
        data = post(data)
    idx_kind = case['index']
    # the model only describes what is read when neither the file nor its index is faulty
    valid = fault[0] == 'none' and idx_kind in ('none', 'match')
    ex = expected_content(fs0) if valid else None
    if idx_kind == 'other':
        _d, index, _l = encode_file(case['other'], with_index=True)
    elif idx_kind == 'bad_tag':
        index = b'TDSx' + index[4:]
    elif idx_kind == 'truncated':
        index = index[:max(4, len(index) * 2 // 3)]
    rec.label('fault=' + fault[0], 'index=' + idx_kind)
    gc_was = gc.isenabled()
    gc.disable()
    try:
        with scratch_dir() as d:
            acct = Acct(rec, d)
            path = os.path.join(d, 'x.tdms')
            with open(path, 'wb') as f:
                f.write(data)
            if idx_kind != 'none':
                with open(path + '_index', 'wb') as f:
                    f.write(index)
            _histories(rec, acct, TdmsFile, path, data, ex, d, valid)
            if valid:
                _two_files(rec, acct, TdmsFile, path, data, ex, d, idx_kind != 'none')
            _index_stream_histories(rec, acct, TdmsFile, index, d)
            read_raised = acct.raised
            _writer_histories(rec, acct, TdmsFile, TdmsWriter, RootObject, ChannelObject, path, d, case)
            rec.nontrivial(read_raised > 0 or idx_kind != 'none')
            if read_raised:
                rec.label('some_read_api_raised')
            rec.stat('api_calls_raised', acct.raised)
    finally:
        if gc_was:
            gc.enable()
        gc.collect()


def _histories(rec, acct, TdmsFile, path, data, ex, d, valid):
    sources = [('path', lambda: path, None)]
    bio = io.BytesIO(data)
    sources.append(('bytesio', lambda: bio, bio))
    fobj = open(path, 'rb')
    sources.append(('fileobj', lambda: fobj, fobj))
    rawobj = open(path, 'rb', buffering=0)          # an unbuffered (raw) file object supplied by the caller
    sources.append(('raw_fileobj', lambda: rawobj, rawobj))
    import pathlib
    sources.append(('pathlib', lambda: pathlib.Path(path), None))
    if os.path.exists(path + '_index'):
        # the .tdms_index file itself given as the path to read (metadata only; data reads are refused)
        sources.append(('index_path', lambda: path + '_index', None))
    full_ex = ex
    try:
        for sname, src, stream in sources:
            ex = None if sname == 'index_path' else full_ex
            # ---- read / read_metadata: after return or raise nothing stays open
            for api in ('read', 'read_metadata'):
                before = open_fds(d)
                err = None
                tf = None
                if stream is not None:
                    stream.seek(0)
                try:
                    tf = getattr(TdmsFile, api)(src())
                except Exception as e:      # noqa
                    err = e
                    acct.raised += 1
                acct.expect_clean(before, '%s:%s' % (api, 'raised' if err else 'returned'),
                                  '%s(%s) %s' % (api, sname, 'raised ' + describe_exc(err) if err else 'returned'))
                if valid and err is not None:
                    rec.stat('valid_file_api_raised')
                if stream is not None and stream.closed:
                    rec.violation('caller_stream_closed', '%s(%s) closed the caller\'s stream' % (api, sname))
                    return
                if tf is not None:
                    try:
                        tf.close()
                        tf.close()
                    except Exception as e:      # noqa
                        rec.violation('close_repeat:raised', 'close() after %s: %s' % (api, describe_exc(e)), key=exc_key(e))
                del tf, err
                if stream is not None and stream.closed:
                    rec.violation('caller_stream_closed', '%s(%s): the caller\'s stream was closed once the result / exception '
                                  'of the call was released' % (api, sname))
                    return
            # ---- the documented constructor itself, in its argument combinations: nothing open after close() / with-block
            for kw in ({}, {'read_metadata_only': True}, {'keep_open': True}, {'read_metadata_only': True, 'keep_open': True}):
                for use_with in (False, True):
                    before = open_fds(d)
                    if stream is not None:
                        stream.seek(0)
                    err = None
                    tf = None
                    try:
                        if use_with:
                            with TdmsFile(src(), **kw) as tf:
                                pass
                        else:
                            tf = TdmsFile(src(), **kw)
                            tf.close()
                    except Exception as e:      # noqa
                        err = e
                        acct.raised += 1
                    if err is not None and kw.get('keep_open'):
                        # the constructor form of TdmsFile.open() raising: outside the statement (there is nothing to close)
                        rec.stat('open_raised')
                        del tf, err
                        continue
                    acct.expect_clean(before, 'constructor:' + ('raised' if err else 'closed'),
                                      'TdmsFile(%s, %s) %s' % (sname, ', '.join('%s=True' % k for k in kw), 'raised ' + describe_exc(err)
                                                               if err else ('with-block left' if use_with else 'close() called')))
                    if stream is not None and stream.closed:
                        rec.violation('caller_stream_closed', 'TdmsFile(%s, ...) closed the caller\'s stream' % sname)
                        return
                    del tf, err
            # ---- with TdmsFile.open(...)
            before = open_fds(d)
            if stream is not None:
                stream.seek(0)
            err = None
            try:
                with TdmsFile.open(src()) as tf:
                    run_reads(rec, acct, tf, ex, 'with_open')
            except Exception as e:      # noqa
                err = e
                acct.raised += 1
                rec.stat('open_itself_or_body_raised')
            if err is None:
                acct.expect_clean(before, 'with_open', 'with TdmsFile.open(%s)' % sname)
            if stream is not None and stream.closed:
                rec.violation('caller_stream_closed', 'with TdmsFile.open(%s) closed the caller\'s stream' % sname)
                return
            del err
            # ---- open, read, close, read after close, close, close
            before = open_fds(d)
            if stream is not None:
                stream.seek(0)
            try:
                tf = TdmsFile.open(src())
            except Exception:       # noqa   open() raising is outside the statement
                acct.raised += 1
                rec.stat('open_raised')
                continue
            got = run_reads(rec, acct, tf, ex, 'open')
            try:
                tf.close()
            except Exception as e:      # noqa
                rec.violation('close:raised', describe_exc(e), key=exc_key(e))
            acct.expect_clean(before, 'close', 'TdmsFile.open(%s) ... close()' % sname)
            if stream is not None and stream.closed:
                rec.violation('caller_stream_closed', 'close() closed the caller\'s stream (%s)' % sname)
                return
            if ex is not None:
                for p in ex.channel_paths()[:2]:
                    g, c = split_path(p)
                    try:
                        ch = tf[g][c]
                    except Exception:       # noqa
                        continue
                    n = ex.length(p)
                    t = ex.objects[p]['type']
                    if n == 0 or t is None or t == 'ts':
                        continue
                    for name, fn, idx in (('[0]', lambda: ch[0], [0]), ('[n-1]', lambda: ch[n - 1], [n - 1])):
                        try:
                            v = fn()
                        except Exception:       # noqa  raising after close is what the statement asks for
                            rec.label('read_after_close_raised')
                            continue
                        msgs = compare_scalars(t, ex.values(p), [v], idx, 'after close %s%s' % (p, name))
                        rec.label('read_after_close_served_from_cache')
                        if msgs:
                            rec.violation('stale_after_close', msgs[0])
                    for name, fn in (('[:]', lambda: ch[:]), ('read_data', lambda: ch.read_data(0, 1)),
                                     ('data_chunks', lambda: [x[:] for x in ch.data_chunks()])):
                        try:
                            v = fn()
                        except Exception:       # noqa
                            continue
                        rec.violation('read_after_close_returned', '%s%s returned %d values after close()' % (p, name, len(v)))
                try:
                    list(tf.data_chunks())
                    if any(ex.length(p) for p in ex.channel_paths()):
                        rec.violation('read_after_close_returned', 'TdmsFile.data_chunks() delivered chunks after close()')
                except Exception:       # noqa
                    pass
            try:
                tf.close()
                tf.close()
            except Exception as e:      # noqa
                rec.violation('close_repeat:raised', describe_exc(e), key=exc_key(e))
            acct.expect_clean(before, 'close_repeat', 'repeated close (%s)' % sname)
            del tf
    finally:
        if fobj.closed:
            rec.violation('caller_stream_closed', 'the caller\'s file object was closed by the library')
        else:
            fobj.close()
        if rawobj.closed:
            rec.violation('caller_stream_closed', 'the caller\'s unbuffered file object was closed by the library (possibly '
                          'when an exception it raised was released)')
        else:
            rawobj.close()
        if bio.closed:
            rec.violation('caller_stream_closed', 'the caller\'s BytesIO was closed by the library')


def _two_files(rec, acct, TdmsFile, path, data, ex, d, with_index):
    """two files alive at once: reading and closing one must neither close nor leak the other's descriptors"""
    import shutil
    other = os.path.join(d, 'other.tdms')
    shutil.copyfile(path, other)
    if with_index:
        shutil.copyfile(path + '_index', other + '_index')
    before = open_fds(d)
    try:
        a = TdmsFile.open(path)
    except Exception:       # noqa
        return
    try:
        mine = {fd: t for fd, t in open_fds(d).items() if fd not in before}
        run_reads(rec, acct, a, ex, 'two_files')
        # another file comes and goes: eager read, metadata read, lazy open + reads + close
        TdmsFile.read(other)
        TdmsFile.read_metadata(other)
        with TdmsFile.open(other) as b:
            run_reads(rec, acct, b, ex, 'two_files')
        now = open_fds(d)
        gone = [t for fd, t in mine.items() if fd not in now]
        extra = [t for fd, t in now.items() if fd not in before and fd not in mine]
        if gone:
            rec.violation('other_file_closed', 'reading and closing other.tdms closed descriptors of the still open x.tdms: %r' % gone)
        if extra:
            rec.violation('fd_leak:other_file', 'descriptors of other.tdms left open after read / close: %r' % sorted(extra))
        # the first file is still fully usable
        for p in ex.channel_paths()[:2]:
            g, c = split_path(p)
            n = ex.length(p)
            t = ex.objects[p]['type']
            if n == 0 or t is None or t == 'ts':
                continue
            try:
                v = a[g][c][n - 1]
                whole = a[g][c][:]
            except Exception as e:      # noqa
                rec.violation('other_file_closed:read_raised', 'x.tdms is still open, but after other.tdms was read and closed '
                              '%s[%d] raises %s' % (p, n - 1, describe_exc(e)), key=exc_key(e))
                break
            msgs = compare_scalars(t, ex.values(p), [v], [n - 1], 'x.tdms %s[%d] after other.tdms was closed' % (p, n - 1)) or \
                compare_values(t, ex.values(p), whole, 'x.tdms %s[:] after other.tdms was closed' % p)
            if msgs:
                rec.violation('other_file_closed:values', msgs[0])
    except Exception as e:      # noqa
        rec.violation('two_files:raised', describe_exc(e), key=exc_key(e))
    finally:
        a.close()
    acct.expect_clean(before, 'two_files', 'x.tdms and other.tdms both closed')


def _index_stream_histories(rec, acct, TdmsFile, index, d):
    """the caller hands in an open stream holding .tdms_index content: it must never be closed by the library"""
    ipath = os.path.join(d, 'caller.tdms_index')
    with open(ipath, 'wb') as f:
        f.write(index)
    for sname in ('index_bytesio', 'index_fileobj'):
        for api in ('read', 'read_metadata', 'open'):
            stream = io.BytesIO(index) if sname == 'index_bytesio' else open(ipath, 'rb')
            before = open_fds(d)
            tf = None
            try:
                tf = getattr(TdmsFile, api)(stream)
            except Exception:       # noqa  faulty index content may be rejected
                acct.raised += 1
            if tf is not None:
                try:
                    tf.close()
                    tf.close()
                except Exception as e:      # noqa
                    rec.violation('close_repeat:raised', describe_exc(e), key=exc_key(e))
            if stream.closed:
                rec.violation('caller_stream_closed', '%s(<caller stream with index file content, %s>) closed the caller\'s stream' % (
                    api, sname))
            else:
                stream.close()
            acct.expect_clean(before, 'index_stream:' + api, '%s(%s)' % (api, sname))
            del tf


def _writer_histories(rec, acct, TdmsFile, TdmsWriter, RootObject, ChannelObject, path, d, case):
    # defragment the (possibly malformed) source to a path with index file
    before = open_fds(d)
    dst = os.path.join(d, 'out.tdms')
    err = None
    try:
        TdmsWriter.defragment(path, dst, index_file=True)
    except Exception as e:      # noqa
        err = e
        acct.raised += 1
    acct.expect_clean(before, 'defragment:' + ('raised' if err else 'returned'),
                      'defragment %s' % ('raised ' + describe_exc(err) if err else 'returned'))
    del err
    # writer with-block: normal exit and exception inside
    for boom in (False, True):
        before = open_fds(d)
        wp = os.path.join(d, 'w%d.tdms' % boom)
        err = None
        try:
            with TdmsWriter(wp, index_file=case['windex']) as w:
                w.write_segment([RootObject({'a': 1}), ChannelObject('g', 'c', np.arange(3, dtype='i4'))])
                if boom:
                    w.write_segment([ChannelObject('g', 'c', np.zeros((2, 2)))])    # rejected: not 1-D
        except Exception as e:      # noqa
            err = e
            acct.raised += 1
        acct.expect_clean(before, 'writer_with:' + ('raised' if err else 'returned'),
                          'TdmsWriter with-block %s' % ('raised ' + describe_exc(err) if err else 'exited'))
        del err
    # one writer object, several consecutive with-blocks (append sessions): every block must release its descriptors
    wp = os.path.join(d, 'reused.tdms')
    w = TdmsWriter(wp, mode='a', index_file=case['windex'])
    for k in range(3):
        before = open_fds(d)
        err = None
        try:
            with w:
                w.write_segment([ChannelObject('g', 'c', np.arange(k + 1, dtype='i4'))])
        except Exception as e:      # noqa
            err = e
            acct.raised += 1
        acct.expect_clean(before, 'writer_reused:block%d' % k, 'with-block %d of a re-used TdmsWriter %s' % (
            k, 'raised ' + describe_exc(err) if err else 'exited'))
        del err
    try:
        n = len(TdmsFile.read(wp)['g']['c'])
        if n != 6:
            rec.violation('writer_reused:content', 'three append sessions wrote 1+2+3 values, the file holds %d' % n)
    except Exception as e:      # noqa
        rec.violation('writer_reused:raised', describe_exc(e), key=exc_key(e))
    # writer on caller streams: never closed
    s1, s2 = io.BytesIO(), io.BytesIO()
    try:
        with TdmsWriter(s1, index_file=s2 if case['windex'] else False) as w:
            w.write_segment([ChannelObject('g', 'c', np.arange(3, dtype='i4'))])
    except Exception as e:      # noqa
        rec.violation('writer_stream:raised', describe_exc(e), key=exc_key(e))
    if s1.closed or s2.closed:
        rec.violation('caller_stream_closed', 'TdmsWriter closed a stream supplied by the caller')


# ---------------------------------------------------------------------------------------------
# byte-level cases (atheris campaign and its Hypothesis fallback)

def bytes_case(data):
    data = bytes(data)
    mode = data[0] % 4
    return {'bytes': data[1:], 'index_mode': ['none', 'same_bytes_as_index', 'TDSh_twin', 'garbage'][mode]}


def check_bytes(case, rec):
    """arbitrary bytes as x.tdms (+ an index file derived from them): descriptor accounting over the read-side APIs"""
    from nptdms import TdmsFile
    _limit_memory()
    data = bytes(case['bytes'])
    mode = case['index_mode']
    rec.label('bytes_case', 'index=' + mode)
    gc_was = gc.isenabled()
    gc.disable()
    try:
        with scratch_dir() as d:
            acct = Acct(rec, d)
            path = os.path.join(d, 'x.tdms')
            with open(path, 'wb') as f:
                f.write(data)
            if mode == 'same_bytes_as_index':
                index = data
            elif mode == 'TDSh_twin':
                index = data.replace(b'TDSm', b'TDSh')
            elif mode == 'garbage':
                index = data[::-1]
            else:
                index = None
            if index is not None:
                with open(path + '_index', 'wb') as f:
                    f.write(index)
            _histories(rec, acct, TdmsFile, path, data, None, d, False)
            if index is not None:
                _index_stream_histories(rec, acct, TdmsFile, index, d)
            rec.stat('api_calls_raised', acct.raised)
            rec.nontrivial(acct.raised > 0 or index is not None)
    finally:
        if gc_was:
            gc.enable()
        gc.collect()


def seed_corpus():
    """a few small valid files from the independent encoder"""
    import struct
    p, q = make_path('g', 'a'), make_path('g', 's')
    files = []
    seg1 = {'be': False, 'interleaved': False,
            'entries': [{'path': '/', 'hdr': 'nodata', 'props': [['name', 'str', 'x'], ['n', 'i32', 3]]},
                        {'path': p, 'hdr': 'full', 'type': 'i32', 'n': 2}], 'active': [[p, 'i32', 2]], 'nchunks': 2,
            'data': {p: [struct.pack('<2i', 1, 2), struct.pack('<2i', 3, 4)]}}
    seg2 = {'be': True, 'interleaved': True,
            'entries': [{'path': p, 'hdr': 'full', 'type': 'i32', 'n': 2},
                        {'path': make_path('g', 'b'), 'hdr': 'full', 'type': 'f64', 'n': 2}],
            'active': [[p, 'i32', 2], [make_path('g', 'b'), 'f64', 2]], 'nchunks': 1,
            'data': {p: [struct.pack('<2i', 5, 6)], make_path('g', 'b'): [struct.pack('<2d', 1.5, 2.5)]}}
    seg3 = {'be': False, 'interleaved': False,
            'entries': [{'path': q, 'hdr': 'full', 'type': 'str', 'n': 2, 'total': 8 + 3}],
            'active': [[q, 'str', 2]], 'nchunks': 1, 'data': {q: [['ab', 'c']]}}
    seg4 = {'be': False, 'interleaved': False, 'meta': False, 'entries': [], 'active': [[q, 'str', 2]], 'nchunks': 1,
            'data': {q: [['xy', 'z']]}}
    for segs in ([seg1], [seg1, seg2], [seg3, seg4], [seg1, seg3]):
        blob, idx, _l = encode_file({'segments': segs}, with_index=True)
        files.append(b'\x00' + blob)
        files.append(b'\x02' + blob)
    return files


def _atheris_job(runs_per_shard, with_corpus):
    def fn(shard, nshards, seed, rec):
        import subprocess
        import sys as _sys
        import json as _json
        from vf.files import scratch_root
        from vf.model import from_json
        import tempfile
        os.makedirs(scratch_root(), exist_ok=True)
        work = tempfile.mkdtemp(prefix='fuzz_%d_%d_' % (os.getpid(), shard), dir=scratch_root())
        corpus = os.path.join(work, 'corpus')
        os.makedirs(corpus)
        if with_corpus:
            for i, blob in enumerate(seed_corpus()):
                with open(os.path.join(corpus, 'seed%d' % i), 'wb') as f:
                    f.write(blob)
        out = os.path.join(work, 'result.json')
        env = dict(os.environ)
        env['VF_SCRATCH'] = os.path.join(work, 'scratch')
        os.makedirs(env['VF_SCRATCH'])
        cmd = [_sys.executable, '-W', 'ignore', '-m', 'vf.fuzz_c20', out, corpus, '-runs=%d' % runs_per_shard,
               '-seed=%d' % (seed % (2 ** 31 - 1) + 1), '-max_len=600', '-timeout=60', '-artifact_prefix=%s/' % work,
               '-print_final_stats=0', '-verbosity=0']
        r = subprocess.run(cmd, env=env, capture_output=True, text=True, cwd=os.path.dirname(os.path.dirname(__file__)),
                           timeout=3600)
        execs = 0
        if os.path.exists(out + '.stats'):
            execs = _json.load(open(out + '.stats'))['stats']['execs']
        if os.path.exists(out):
            doc = _json.load(open(out))
            execs = doc['stats']['execs']
            for k, v in doc['violations'].items():
                rec.begin(from_json(_json.dumps(v['case'])))
                rec.nontrivial(True)
                rec.violation(v['clause'], v['message'])
                rec.end()
        elif r.returncode != 0 and 'C20 oracle violated' not in (r.stderr or ''):
            tail = (r.stderr or '')[-600:]
            if 'ModuleNotFoundError' in tail and 'atheris' in tail:
                rec.stat('atheris_unavailable')
                return
            raise RuntimeError('atheris campaign failed (rc=%d): %s' % (r.returncode, tail))
        # the campaign itself counts as evaluations; one synthetic case documents it
        rec.evaluations += max(execs - 1, 0)
        rec.begin({'atheris_campaign': {'shard': shard, 'runs': runs_per_shard, 'execs': execs, 'corpus': with_corpus}})
        rec.nontrivial(True)
        rec.stat('atheris_execs', execs)
        rec.label('atheris_campaign')
        rec.end()
    return fn


@st.composite
def byte_cases(draw):
    """Hypothesis fallback / complement: seed files with drawn splices, flips and truncations"""
    seeds = seed_corpus()
    blob = bytearray(draw(st.sampled_from(seeds)))
    for _ in range(draw(st.integers(0, 4))):
        kind = draw(st.integers(0, 3))
        if not blob:
            break
        pos = draw(st.integers(0, len(blob) - 1))
        if kind == 0:
            blob[pos] ^= 1 << draw(st.integers(0, 7))
        elif kind == 1:
            blob[pos:pos + draw(st.integers(1, 8))] = draw(st.binary(max_size=8))
        elif kind == 2:
            del blob[pos:]
        else:
            blob[pos:pos] = draw(st.sampled_from([b'TDSm', b'\xff\xff\xff\xff', b'\x00\x00\x00\x00', b'\x69\x12\x00\x00']))
    return bytes_case(bytes([draw(st.integers(0, 3))]) + bytes(blob[1:]))


FAULTS = ['none', 'none', 'bad_tag', 'truncate', 'flip', 'unknown_type', 'dim2', 'bad_path', 'same_unseen', 'type_change',
          'index_len', 'huge_count']


@st.composite
def cases(draw):
    opts = dict(max_segments=3, max_channels=3, max_n=4, max_chunks=2, values='unique', names='simple', max_groups=2,
                props=True, str_max=3)
    fs = draw(S.file_spec(**opts))
    kind = draw(st.sampled_from(FAULTS))
    fault = [kind, draw(st.integers(0, 7)), draw(st.integers(0, 10 ** 6))]
    if kind == 'flip':
        fault += draw(st.lists(st.integers(0, 10 ** 6), min_size=0, max_size=3))
    index = draw(st.sampled_from(['none', 'none', 'match', 'other', 'bad_tag', 'truncated']))
    case = {'fs': fs, 'fault': fault, 'index': index, 'windex': draw(st.booleans())}
    if index == 'other':
        case['other'] = draw(S.file_spec(**opts))
    return case


@st.composite
def large_cases(draw):
    """files whose chunks are larger than typical I/O buffer / mapping thresholds (64 KiB ... 2 MiB)"""
    return {'large': True, 'kib': draw(st.sampled_from([63, 64, 65, 256, 1023, 1024, 1025, 1536, 2049])),
            'type': draw(st.sampled_from(['f64', 'i16', 'u8', 'i32'])), 'chunks': draw(st.integers(1, 2)),
            'interleaved': draw(st.booleans()), 'with_index': draw(st.booleans()), 'memmap': draw(st.integers(0, 3)) == 0}


def check_large(case, rec):
    """big chunks, opened by path: after integer indexing, windows and a held streamed chunk, close() leaves nothing open"""
    from nptdms import TdmsFile
    from vf.model import tsize
    _limit_memory()
    t = case['type']
    n = case['kib'] * 1024 // tsize(t)
    p, q = make_path('g', 'big'), make_path('g', 'small')
    vals = ((np.arange(n, dtype=np.int64) * 31) % 251).astype({'f64': '<f8', 'i16': '<i2', 'u8': '<u1', 'i32': '<i4'}[t])
    active = [[p, t, n]] + ([[q, t, n]] if case['interleaved'] else [[q, 'i16', 2]])
    data_map = {p: [vals.tobytes()] * case['chunks'],
                q: [vals[::-1].tobytes()] * case['chunks'] if case['interleaved'] else [b'\x01\x00\x02\x00'] * case['chunks']}
    seg = {'be': False, 'interleaved': case['interleaved'],
           'entries': [{'path': a[0], 'hdr': 'full', 'type': a[1], 'n': a[2]} for a in active],
           'active': active, 'nchunks': case['chunks'], 'data': data_map}
    data, index, _l = encode_file({'segments': [seg]}, with_index=True)
    rec.nontrivial(True)
    rec.label('large_chunks', 'chunk_kib=%d' % case['kib'], 'interleaved' if case['interleaved'] else 'contiguous')
    gc_was = gc.isenabled()
    gc.disable()
    try:
        with scratch_dir() as d:
            acct = Acct(rec, d)
            path = os.path.join(d, 'big.tdms')
            with open(path, 'wb') as f:
                f.write(data)
            if case['with_index']:
                with open(path + '_index', 'wb') as f:
                    f.write(index)
            mm = d if case['memmap'] else None
            before = open_fds(d)
            held = []
            try:
                tf = TdmsFile.open(path, memmap_dir=mm)
                ch = tf['g']['big']
                held.append(ch[0])
                held.append(ch[n - 1])
                held.append(ch.read_data(1, 3))
                it = ch.data_chunks()
                held.append(next(it)[:])
                held.append(next(tf.data_chunks())['g']['big'][:])
                first = int(held[0]), int(held[1])
                tf.close()
            except Exception as e:      # noqa
                rec.violation('large:raised', describe_exc(e), key=exc_key(e))
                return
            # (memmap_dir keeps its own temporary files open while the arrays live: documented, and not the files named here)
            left = {fd: tgt for fd, tgt in open_fds(d).items()
                    if fd not in before and tgt.split(' (deleted)')[0].endswith(('.tdms', '.tdms_index'))}
            if left:
                rec.violation('fd_leak:close_large', 'TdmsFile.open(path) of a file with %d KiB chunks, integer index, window, two '
                              'held chunks, close(): descriptors left open: %r' % (case['kib'], sorted(left.values())))
            if first != (int(vals[0]), int(vals[n - 1])):
                rec.violation('large:values', 'first / last value %r, expected %r' % (first, (int(vals[0]), int(vals[n - 1]))))
            # eager read and read_metadata of the same file: nothing stays open either (results still referenced)
            for api in ('read', 'read_metadata'):
                before = open_fds(d)
                try:
                    keep = getattr(TdmsFile, api)(path, **({'memmap_dir': mm} if api == 'read' else {}))
                    if api == 'read':
                        held.append(keep['g']['big'][:])
                except Exception as e:      # noqa
                    rec.violation('large:raised', describe_exc(e), key=exc_key(e))
                    continue
                now = {fd: tgt for fd, tgt in open_fds(d).items()
                       if fd not in before and tgt.split(' (deleted)')[0].endswith(('.tdms', '.tdms_index'))}
                if now:
                    rec.violation('fd_leak:%s_large' % api, '%s(path): descriptors left open: %r' % (api, sorted(now.values())))
            del held
    finally:
        if gc_was:
            gc.enable()
        gc.collect()


def jobs(tier):
    if tier == 'quick':
        return [Job('fault_cases', 'hyp', cases, n=2000),
                Job('large_chunks', 'hyp', large_cases, n=48, check=check_large),
                Job('mutated_bytes', 'hyp', byte_cases, n=800, check=check_bytes),
                Job('atheris_seeded', 'custom', _atheris_job(400, True), shards=4,
                    note='libFuzzer campaign, 4 x 400 runs from 8 valid seed files')]
    return [Job('fault_cases', 'hyp', cases, n=60000),
            Job('large_chunks', 'hyp', large_cases, n=600, check=check_large),
            Job('mutated_bytes', 'hyp', byte_cases, n=30000, check=check_bytes),
            Job('atheris_seeded', 'custom', _atheris_job(12500, True), shards=12,
                note='libFuzzer campaign, 12 x 12500 runs from 8 valid seed files'),
            Job('atheris_empty_corpus', 'custom', _atheris_job(12500, False), shards=4,
                note='libFuzzer campaign, 4 x 12500 runs from an empty corpus')]
