"""C12 - Timestamps round-trip exactly and convert to datetime64 within one unit."""
import io
import struct
from fractions import Fraction

import numpy as np
from hypothesis import strategies as st

from vf.harness import Job, describe_exc, exc_key
from vf.encode import encode_file
from vf.expect import EPOCH_1904_TO_1970_S
from vf.model import make_path

ID = 'C12'
LEVEL = 'exploration'
UNITS = {'s': 1, 'ms': 10 ** 3, 'us': 10 ** 6, 'ns': 10 ** 9}
SLACK = Fraction(1000001, 1000000)
RULE = ("(a) EXHAUSTIVE: every one of the 10^6 sub-second microsecond values (x 1 seconds value quick, x 4 incl. pre-1904 "
        "thorough) goes datetime64[us] -> TimeStamp(...).bytes -> TimeStamp.read (little-endian, and byte-swapped big-endian) "
        "-> as_datetime64('us') and must come back identical; blocks of them also go through TdmsWriter -> TdmsFile as "
        "channel data and as properties. (b) Hypothesis (seconds, fractions) pairs with fractions biased to 0, 2^64-1 and "
        "+-1, +-2^11, +-2^17 around every unit boundary k*2^64/10^n: |as_datetime64(res) - exact rational time| <= 1 unit "
        "for s/ms/us/ns, monotone in (seconds, fractions), scalar == array conversion. (c) raw timestamps as data and "
        "properties survive read -> defragment -> read bit-exactly in both byte orders. (d) waveform channels of length "
        "0,1,n: time_track() has len(channel) points, starts at wf_start_offset, is spaced by wf_increment, and its "
        "absolute form is wf_start_time plus those offsets. Non-trivial: microsecond value not a multiple of 1000, "
        "fractions within 2^18 of a unit boundary, or a track of length >= 2."
        " A further job writes datetime64[us] values from the whole representable range (incl. the ends of Python's "
        'datetime range) as channel data and properties through a file.'
        ' Raw timestamp chunks of a lazily opened file are collected first and compared afterwards (second chunk '
        'reversed); field accessors and scalar equality of TimestampArray are checked.'
        ' Values are also handed over in nanosecond unit (1678 - 2262); a re-used root object gets a timestamp '
        'property changed in place.'
        ' time_track is also checked when the other waveform properties LabVIEW writes are present (wf_samples = block '
        'length).')
ASSUMPTIONS = [
    "exact time = 1904-01-01 + seconds + fractions/2^64 as a Fraction",
    "'within one unit' is checked as <= (1 + 1e-6) units: float64 evaluation may overshoot a unit by ~1e-10 units",
    "absolute time_track combines two truncations (start time, relative offsets): tolerance 2 units + 1e-9 relative",
    "'ps' resolution and as_datetime() are not in the statement",
]

EPOCH_US = np.datetime64('1904-01-01T00:00:00', 'us')


def exact_units(sec, frac, per_second):
    return (Fraction(sec - EPOCH_1904_TO_1970_S) + Fraction(frac, 2 ** 64)) * per_second


# ---------------------------------------------------------------------------------------------
# (a) exhaustive microsecond round trip

def enum_us(seconds_list, stride=1, phase=0):
    def fn(shard, nshards):
        for sec in seconds_list:
            for us in range(shard + phase, 10 ** 6, nshards * stride):
                yield {'sec': sec, 'us': us}
    return fn


def check_roundtrip(case, rec):
    from nptdms import types
    sec, us = case['sec'], case['us']
    rec.nontrivial(us % 1000 != 0)
    dt = EPOCH_US + np.timedelta64(sec, 's') + np.timedelta64(us, 'us')
    try:
        b = types.TimeStamp(dt).bytes
        back_le = types.TimeStamp.read(io.BytesIO(b), '<')
        back_be = types.TimeStamp.read(io.BytesIO(b[::-1]), '>')
        got_le = back_le.as_datetime64('us')
        got_be = back_be.as_datetime64('us')
    except Exception as e:      # noqa
        rec.violation('roundtrip:raised', 'sec=%d us=%d: %s' % (sec, us, describe_exc(e)), key=exc_key(e))
        return
    if got_le != dt:
        rec.violation('roundtrip_us', 'datetime %s (sec=%d, us=%d) written and read back as %s' % (dt, sec, us, got_le))
    if got_be != dt or (back_be.seconds, back_be.second_fractions) != (back_le.seconds, back_le.second_fractions):
        rec.violation('roundtrip_us:big_endian', 'datetime %s read from big-endian bytes as %s' % (dt, got_be))
    frac, s2 = struct.unpack('<Qq', b)
    if s2 != sec:
        rec.violation('roundtrip_us', 'seconds field %d, expected %d' % (s2, sec))


@st.composite
def far_case(draw):
    """whole range of seconds representable as datetime64[us], microsecond part biased to the ends of the second"""
    sec = draw(st.one_of(st.integers(-6 * 10 ** 10, 2.5 * 10 ** 11 // 1), st.integers(-9 * 10 ** 12, 9 * 10 ** 12)))
    us = draw(st.one_of(st.sampled_from([0, 1, 2, 999999, 999998, 500000]), st.integers(0, 999999)))
    return {'sec': int(sec), 'us': us}


def check_file_block(case, rec):
    """a block of consecutive microsecond values through TdmsWriter -> TdmsFile as channel data and as properties"""
    from nptdms import TdmsFile, TdmsWriter, ChannelObject, RootObject
    sec, start, n = case['sec'], case['start'], case['n']
    rec.nontrivial(True)
    base = EPOCH_US + np.timedelta64(sec, 's')
    arr = base + np.arange(start, start + n).astype('timedelta64[us]')
    out = io.BytesIO()
    props = {'t%d' % i: arr[i] for i in range(0, n, max(1, n // 16))}
    try:
        with TdmsWriter(out) as w:
            w.write_segment([RootObject(props), ChannelObject('g', 't', arr),
                             ChannelObject('g', 'tl', [x.item() for x in arr[:8]])])
        tf = TdmsFile.read(io.BytesIO(out.getvalue()))
        got = tf['g']['t'][:]
        got_l = tf['g']['tl'][:]
    except Exception as e:      # noqa
        rec.violation('file_roundtrip:raised', describe_exc(e), key=exc_key(e))
        return
    bad = np.nonzero(got != arr)[0]
    if len(bad):
        rec.violation('file_roundtrip:data', '%d of %d microsecond values differ, first: wrote %s read %s' % (
            len(bad), n, arr[bad[0]], got[bad[0]]))
    if not bool(np.all(got_l == arr[:8])):
        rec.violation('file_roundtrip:data', 'datetime list data differs')
    for k, v in props.items():
        if tf.properties[k] != v:
            rec.violation('file_roundtrip:property', 'property %s: wrote %s read %s' % (k, v, tf.properties[k]))
            break


@st.composite
def far_file_case(draw):
    pts = draw(st.lists(far_case(), min_size=1, max_size=5))
    # the ends of Python's datetime range (years 1 and 9999) and their neighbours
    edges = [[-60052752000, 0], [-60052752001, 999999], [255485231999, 999999], [255485232000, 0], [255485232000, 1]]
    for _ in range(draw(st.integers(0, 2))):
        pts.insert(draw(st.integers(0, len(pts))), dict(zip(('sec', 'us'), draw(st.sampled_from(edges)))))
    case = {'points': [[p['sec'], p['us']] for p in pts], 'second_segment': draw(st.booleans())}
    if draw(st.integers(0, 2)) == 0:
        # the same kind of values handed over in nanosecond unit (what pandas produces); datetime64[ns] spans 1678 - 2262
        lo, hi = -7 * 10 ** 9, 11 * 10 ** 9 + 2 * 10 ** 8
        near = [9223372036, 9223372037, 9223372035, 11297000000, -7100000000]     # 2^63 ns after the epoch; ends of the range
        n = draw(st.integers(1, 4))
        case['points'] = [[draw(st.one_of(st.sampled_from(near), st.integers(lo, hi))),
                           draw(st.sampled_from([0, 1, 999999, 500000]))] for _ in range(n)]
        case['unit'] = 'ns'
    return case


def check_file_far(case, rec):
    """datetime64[us] values anywhere in the representable range, as channel data and as properties, through a file"""
    from nptdms import TdmsFile, TdmsWriter, ChannelObject, RootObject
    arr = np.array([EPOCH_US + np.timedelta64(s, 's') + np.timedelta64(u, 'us') for (s, u) in case['points']],
                   dtype='datetime64[us]')
    if case.get('unit') == 'ns':
        arr = arr.astype('datetime64[ns]')
        rec.label('nanosecond_unit')
    years = arr.astype('datetime64[Y]').astype(np.int64) + 1970
    outside = bool(np.any((years < 1) | (years > 9999)))
    rec.nontrivial(outside or any(u % 1000 for (_s, u) in case['points']))
    rec.label('beyond_python_datetime_range' if outside else 'within_python_datetime_range')
    out = io.BytesIO()
    props = {'t%d' % i: arr[i] for i in range(len(arr))}
    try:
        with TdmsWriter(out) as w:
            root = RootObject(props)
            w.write_segment([root, ChannelObject('g', 't', arr), ChannelObject('g', 'after', np.arange(3, dtype='i4'))])
            if case['second_segment']:
                # the same root object again, one of its timestamp properties changed in place
                root.properties['t0'] = arr[-1]
                props['t0'] = arr[-1]
                w.write_segment([root, ChannelObject('g', 't', arr[::-1].copy())])
        tf = TdmsFile.read(io.BytesIO(out.getvalue()))
        got = np.asarray(tf['g']['t'][:])
        after = np.asarray(tf['g']['after'][:])
    except Exception as e:      # noqa
        rec.violation('file_roundtrip:raised', '%r: %s' % (case['points'], describe_exc(e)), key=exc_key(e))
        return
    want = (np.concatenate([arr, arr[::-1]]) if case['second_segment'] else arr).astype('datetime64[us]')
    if got.dtype != np.dtype('<M8[us]') or len(got) != len(want) or not bool(np.all(got == want)):
        rec.violation('file_roundtrip:data', 'wrote %s, read %s (%s)' % (want, got, got.dtype))
    if after.tolist() != [0, 1, 2]:
        rec.violation('file_roundtrip:data', 'the channel written after the timestamps reads %r' % (after.tolist(),))
    for k, v in props.items():
        r = tf.properties.get(k)
        v = v.astype('datetime64[us]')         # compared in the unit read back (a wrong far-away value must not overflow the comparison)
        if not isinstance(r, np.datetime64) or np.datetime_data(r.dtype)[0] != 'us' or r != v:
            rec.violation('file_roundtrip:property', 'property %s: wrote %s read %s' % (k, v, r))
            break


# ---------------------------------------------------------------------------------------------
# (b) conversions

@st.composite
def boundary_fraction(draw):
    kind = draw(st.integers(0, 5))
    if kind == 0:
        return draw(st.sampled_from([0, 1, 2 ** 64 - 1, 2 ** 63, 2 ** 63 - 1, 2 ** 64 - 2]))
    if kind == 1:
        return draw(st.integers(0, 2 ** 64 - 1))
    res = draw(st.sampled_from([10 ** 3, 10 ** 6, 10 ** 9]))
    k = draw(st.integers(0, res))
    delta = draw(st.sampled_from([0, 1, -1, 2, -2, 2 ** 11, -2 ** 11, 2 ** 11 + 1, -2 ** 11 - 1, 2 ** 16, -2 ** 16,
                                  2 ** 17, -2 ** 17, 2 ** 18, -2 ** 18, 1023, -1023, 1025, -1025]))
    exactb = (k * 2 ** 64) // res
    up = -((-k * 2 ** 64) // res)
    f = draw(st.sampled_from([exactb, up])) + delta
    return min(max(f, 0), 2 ** 64 - 1)


@st.composite
def conv_case(draw):
    res = draw(st.sampled_from(['s', 'ms', 'us', 'ns']))
    if res == 'ns':
        secs = st.integers(-7 * 10 ** 9, 11 * 10 ** 9)
    else:
        secs = st.one_of(st.integers(-2 ** 42, 2 ** 42), st.integers(-4 * 10 ** 9, 4 * 10 ** 9))
    s1 = draw(st.one_of(st.sampled_from([0, -1, 1, 3524551547, -2082844800]), secs))
    f1 = draw(boundary_fraction())
    if draw(st.booleans()):
        s2, f2 = s1, draw(boundary_fraction())
    else:
        s2, f2 = s1 + draw(st.sampled_from([1, -1, 2])), draw(boundary_fraction())
    if res == 'ns':
        s2 = min(max(s2, -7 * 10 ** 9), 11 * 10 ** 9)
    return {'res': res, 'a': [s1, f1], 'b': [s2, f2]}


def _near_boundary(f, res):
    per = UNITS[res]
    x = (f * per) % 2 ** 64
    return min(x, 2 ** 64 - x) <= per * 2 ** 18


def check_conversion(case, rec):
    from nptdms.timestamp import TdmsTimestamp, TimestampArray
    res = case['res']
    per = UNITS[res]
    pts = [tuple(case['a']), tuple(case['b'])]
    rec.nontrivial(any(_near_boundary(f, res) for (_s, f) in pts))
    rec.label('res=' + res)
    arr = np.array([(f, s) for (s, f) in pts], dtype=[('second_fractions', '<u8'), ('seconds', '<i8')])
    arr_be = np.array([(s, f) for (s, f) in pts], dtype=[('seconds', '>i8'), ('second_fractions', '>u8')])
    try:
        conv = TimestampArray(arr).as_datetime64(res)
        conv_be = TimestampArray(arr_be).as_datetime64(res)
        scal = [TdmsTimestamp(s, f).as_datetime64(res) for (s, f) in pts]
        item = [TimestampArray(arr)[i].as_datetime64(res) for i in range(2)]
    except Exception as e:      # noqa
        rec.violation('convert:raised', '%r: %s' % (case, describe_exc(e)), key=exc_key(e))
        return
    ints = conv.astype('datetime64[%s]' % res).astype('int64')
    for i, (s, f) in enumerate(pts):
        exact = exact_units(s, f, per)
        err = abs(Fraction(int(ints[i])) - exact)
        if err > SLACK:
            rec.violation('within_one_unit:' + res, 'TimestampArray(%d, %d).as_datetime64(%r) = %d %s since 1970, exact %s '
                          '(error %.9f units)' % (s, f, res, int(ints[i]), res, float(exact), float(err)))
        if scal[i] != conv[i] or item[i] != conv[i]:
            rec.violation('scalar_eq_array:' + res, '(%d, %d) at %r: scalar %s, array %s, array item %s' % (
                s, f, res, scal[i], conv[i], item[i]))
        if conv_be[i] != conv[i]:
            rec.violation('scalar_eq_array:' + res, '(%d, %d) at %r: big-endian array %s, little-endian %s' % (
                s, f, res, conv_be[i], conv[i]))
    # the field accessors and scalar items of the arrays report the (seconds, fractions) they were built from
    for name, ta in (('little-endian', TimestampArray(arr)), ('big-endian', TimestampArray(arr_be))):
        try:
            secs, fracs = [int(x) for x in ta.seconds], [int(x) for x in ta.second_fractions]
            items = [(ta[i].seconds, ta[i].second_fractions, ta[i] == TdmsTimestamp(*pts[i])) for i in range(2)]
        except Exception as e:      # noqa
            rec.violation('fields:raised', describe_exc(e), key=exc_key(e))
            break
        if secs != [p_[0] for p_ in pts] or fracs != [p_[1] for p_ in pts] or items != [(p_[0], p_[1], True) for p_ in pts]:
            rec.violation('fields', '%s TimestampArray built from %r reports seconds %r, second_fractions %r, items %r' % (
                name, pts, secs, fracs, items))
    (a, b) = pts
    if a <= b and conv[0] > conv[1] or b <= a and conv[1] > conv[0]:
        rec.violation('monotone:' + res, '%r <=> %r but conversions %s, %s' % (a, b, conv[0], conv[1]))


# ---------------------------------------------------------------------------------------------
# (c) raw timestamps through read / defragment / read

@st.composite
def raw_case(draw):
    n = draw(st.integers(0, 5))
    vals = [(draw(st.integers(-2 ** 40, 2 ** 40)), draw(boundary_fraction())) for _ in range(n)]
    prop = (draw(st.integers(-2 ** 40, 2 ** 40)), draw(boundary_fraction()))
    return {'vals': [list(v) for v in vals], 'prop': list(prop), 'be': draw(st.booleans()), 'chunks': draw(st.integers(1, 2))}


def check_raw(case, rec):
    from nptdms import TdmsFile, TdmsWriter
    vals = [tuple(v) for v in case['vals']]
    rec.nontrivial(len(vals) >= 1)
    p = make_path('g', 'ts')
    blob = b''.join(struct.pack('<Qq', f, s) for (s, f) in vals)
    seg = {'be': case['be'], 'interleaved': False,
           'entries': [{'path': '/', 'hdr': 'nodata', 'props': [['t0', 'ts', case['prop']]]},
                       {'path': p, 'hdr': 'full', 'type': 'ts', 'n': len(vals),
                        'props': [['wf_start_time', 'ts', case['prop']]]}],
           'active': [[p, 'ts', len(vals)]], 'nchunks': case['chunks'] if vals else 0,
           'data': {p: [blob] * case['chunks'] if vals else []}}
    if vals and case['chunks'] == 2:
        # the second chunk holds the values in reverse order, so that chunks differ
        rblob = b''.join(struct.pack('<Qq', f, s) for (s, f) in reversed(vals))
        seg['data'][p] = [blob, rblob]
    data, _i, _l = encode_file({'segments': [seg]})
    want = vals * (case['chunks'] if vals else 0)
    if vals and case['chunks'] == 2:
        want = vals + vals[::-1]
    try:
        tf = TdmsFile.read(io.BytesIO(data), raw_timestamps=True)
        out = io.BytesIO()
        TdmsWriter.defragment(io.BytesIO(data), out)
        tf2 = TdmsFile.read(io.BytesIO(out.getvalue()), raw_timestamps=True)
    except Exception as e:      # noqa
        rec.violation('raw:raised', describe_exc(e), key=exc_key(e))
        return
    # conversions of windows of one raw array, one after the other, each against the exact time
    d0 = tf['g']['ts'][:]
    if len(d0) >= 2:
        k = len(d0) // 2
        for lo, hi in ((0, k), (k, len(d0)), (0, len(d0)), (1, len(d0))):
            try:
                conv = d0[lo:hi].as_datetime64('us').astype('int64')
            except Exception as e:      # noqa
                rec.violation('raw:raised', describe_exc(e), key=exc_key(e))
                break
            if len(conv) != hi - lo:
                rec.violation('window_conversion', 'as_datetime64 of window [%d:%d] has %d values' % (lo, hi, len(conv)))
                break
            for i, (sec, frac) in enumerate(want[lo:hi]):
                if abs(Fraction(int(conv[i])) - exact_units(sec, frac, 10 ** 6)) > SLACK:
                    rec.violation('window_conversion', 'as_datetime64 of window [%d:%d] element %d gives %d us, exact %s' % (
                        lo, hi, i, int(conv[i]), float(exact_units(sec, frac, 10 ** 6))))
                    break
    # streamed raw chunks (lazily opened file): all collected first, looked at afterwards - they must survive bit-exactly
    try:
        with TdmsFile.open(io.BytesIO(data), raw_timestamps=True) as lz:
            chunks = [c[:] for c in lz['g']['ts'].data_chunks()]
            fchunks = [c['g']['ts'][:] for c in lz.data_chunks()]
            first = lz['g']['ts'][0] if vals else None
            lz['g']['ts'][:]
        for nm, cs in (('channel', chunks), ('file', fchunks)):
            got = [(int(d['seconds'][i]), int(d['second_fractions'][i])) for d in cs for i in range(len(d))]
            if got != want:
                rec.violation('raw_exact:%s_chunks' % nm, 'raw timestamp chunks collected from the %s stream hold %r, expected %r' % (
                    nm, got[:4], want[:4]))
        if first is not None and (first.seconds, first.second_fractions) != want[0]:
            rec.violation('raw_exact:item', 'first raw timestamp %r changed to %r after later reads' % (want[0], first))
    except Exception as e:      # noqa
        rec.violation('raw:raised', describe_exc(e), key=exc_key(e))
    for name, f in (('read', tf), ('defragment', tf2)):
        ch = f['g']['ts']
        d = ch[:]
        got = [(int(d['seconds'][i]), int(d['second_fractions'][i])) for i in range(len(d))] if len(d) else []
        if got != want:
            rec.violation('raw_exact:' + name, 'raw timestamp data %r, expected %r' % (got[:3], want[:3]))
        for holder, key in ((f.properties, 't0'), (ch.properties, 'wf_start_time')):
            v = holder.get(key)
            if v is None or (v.seconds, v.second_fractions) != tuple(case['prop']):
                rec.violation('raw_exact:' + name, 'raw timestamp property %s = %r, expected %r' % (key, v, case['prop']))


# ---------------------------------------------------------------------------------------------
# (d) time_track

@st.composite
def track_case(draw):
    n = draw(st.sampled_from([0, 1, 2, 3, 7, 50]))
    fl = st.floats(min_value=-1e6, max_value=1e6, allow_nan=False, allow_infinity=False)
    off = draw(st.one_of(st.sampled_from([0.0, 1.0, -0.5, 1e-9]), fl))
    inc = draw(st.one_of(st.sampled_from([1.0, 0.001, 1e-6, 0.0, -0.25, 1e-9]), fl))
    if n * abs(inc) > 1e7:
        inc = 0.5
    return {'n': n, 'offset': off, 'increment': inc, 'start': [draw(st.integers(3 * 10 ** 9, 4 * 10 ** 9)),
                                                               draw(boundary_fraction())],
            'accuracy': draw(st.sampled_from(['s', 'ms', 'us', 'ns'])), 'raw': draw(st.booleans()),
            'lazy': draw(st.booleans()), 'wf_samples': draw(st.sampled_from([None, None, 0, 1, 4, 1000]))}


def check_track(case, rec):
    from nptdms import TdmsFile
    n, off, inc = case['n'], case['offset'], case['increment']
    rec.nontrivial(n >= 2)
    rec.label('len=%d' % n)
    p = make_path('g', 'w')
    seg = {'be': False, 'interleaved': False,
           'entries': [{'path': p, 'hdr': 'full', 'type': 'f64', 'n': n,
                        'props': [['wf_start_offset', 'f64', off], ['wf_increment', 'f64', inc],
                                  ['wf_start_time', 'ts', case['start']]] + (
                            # the other waveform properties LabVIEW writes; wf_samples is the block length, not len(channel)
                            [['wf_samples', 'i32', case['wf_samples']], ['wf_xname', 'str', 'Time'], ['wf_xunit_string', 'str', 's']]
                            if case.get('wf_samples') is not None else [])}],
           'active': [[p, 'f64', n]], 'nchunks': 1 if n else 0, 'data': {p: [bytes(8 * n)] if n else []}}
    data, _i, _l = encode_file({'segments': [seg]})
    opener = TdmsFile.open if case['lazy'] else TdmsFile.read
    try:
        tf = opener(io.BytesIO(data), raw_timestamps=case['raw'])
        ch = tf['g']['w']
        rel = ch.time_track()
        absolute = ch.time_track(absolute_time=True, accuracy=case['accuracy'])
        start_prop = ch.properties['wf_start_time']
        tf.close()
    except Exception as e:      # noqa
        rec.violation('time_track:raised', describe_exc(e), key=exc_key(e))
        return
    if len(rel) != n or len(absolute) != n:
        rec.violation('time_track:length', 'len(channel)=%d, time_track has %d / %d points' % (n, len(rel), len(absolute)))
        return
    scale = max(abs(off), abs(off + (n - 1) * inc), 1e-300)
    for i in range(n):
        want = off + i * inc
        if abs(rel[i] - want) > 1e-12 * scale + 4 * np.finfo(float).eps * abs(want):
            rec.violation('time_track:relative', 'point %d is %r, expected offset + i*increment = %r' % (i, rel[i], want))
            break
    if n and rel[0] != off:
        rec.violation('time_track:relative', 'first point %r, wf_start_offset %r' % (rel[0], off))
    per = UNITS[case['accuracy']]
    if case['raw']:
        start_exact = exact_units(case['start'][0], case['start'][1], per)
    else:
        start_exact = Fraction(int(np.datetime64(start_prop, 'us').astype('int64')), 10 ** 6) * per
    ints = np.asarray(absolute).astype('datetime64[%s]' % case['accuracy']).astype('int64')
    for i in range(n):
        want = start_exact + Fraction(off + i * inc) * per
        tol = 2 + Fraction(abs(off + i * inc) * per) / 10 ** 9
        if abs(Fraction(int(ints[i])) - want) > tol:
            rec.violation('time_track:absolute', 'point %d at accuracy %s: %d, expected about %.3f (start %r, offset %r, '
                          'increment %r)' % (i, case['accuracy'], int(ints[i]), float(want), case['start'], off, inc))
            break


def check(case, rec):
    if 'us' in case:
        return check_roundtrip(case, rec)
    if 'start' in case and 'n' in case and 'sec' in case:
        return check_file_block(case, rec)
    if 'res' in case:
        return check_conversion(case, rec)
    if 'points' in case:
        return check_file_far(case, rec)
    if 'vals' in case:
        return check_raw(case, rec)
    return check_track(case, rec)


def _blocks(seconds_list, n, count):
    def fn(shard, nshards):
        i = 0
        for sec in seconds_list:
            for start in range(0, 10 ** 6, n):
                i += 1
                if i % nshards == shard and (i // nshards) < count:
                    yield {'sec': sec, 'start': start, 'n': min(n, 10 ** 6 - start)}
    return fn


def jobs(tier):
    if tier == 'quick':
        return [Job('all_microseconds', 'enum', enum_us([3524551547]), exhaustive=True, check=check_roundtrip,
                    note='all 10^6 sub-second microsecond values at one seconds value, little- and big-endian read'),
                Job('pre_1904_microseconds', 'enum', enum_us([-86400 * 365 - 1], stride=16), check=check_roundtrip,
                    note='every 16th microsecond value at a negative (pre-1904) seconds value'),
                Job('far_dates_microseconds', 'enum', enum_us([18808761296, -28502841677, 150000000000], stride=64),
                    check=check_roundtrip, note='every 64th microsecond value in the years 2500, 1000 and 6657'),
                Job('any_second_boundary_microseconds', 'hyp', far_case, n=20000, check=check_roundtrip),
                Job('file_blocks', 'enum', _blocks([3524551547], 4000, 2), check=check_file_block),
                Job('file_any_date', 'hyp', far_file_case, n=3000, check=check_file_far),
                Job('conversions', 'hyp', conv_case, n=30000, check=check_conversion),
                Job('raw_defragment', 'hyp', raw_case, n=1500, check=check_raw),
                Job('time_track', 'hyp', track_case, n=4000, check=check_track)]
    return [Job('far_dates_microseconds', 'enum', enum_us([18808761296, -28502841677, 150000000000], stride=2),
                check=check_roundtrip, note='every 2nd microsecond value in the years 2500, 1000 and 6657'),
            Job('all_microseconds', 'enum', enum_us([3524551547, 0, -1, -86400 * 365 * 100 - 7]), exhaustive=True,
                check=check_roundtrip, note='all 10^6 sub-second microsecond values at 4 seconds values incl. pre-1904'),
            Job('any_second_boundary_microseconds', 'hyp', far_case, n=400000, check=check_roundtrip),
            Job('file_blocks', 'enum', _blocks([3524551547, -12345], 10000, 10 ** 6), exhaustive=True,
                check=check_file_block, note='all 10^6 microsecond values through TdmsWriter/TdmsFile as data'),
            Job('file_any_date', 'hyp', far_file_case, n=100000, check=check_file_far),
            Job('conversions', 'hyp', conv_case, n=600000, check=check_conversion),
            Job('raw_defragment', 'hyp', raw_case, n=40000, check=check_raw),
            Job('time_track', 'hyp', track_case, n=100000, check=check_track)]
