"""C16 - Object names are arbitrary strings and never alias."""
import io
import itertools
import struct

import numpy as np
from hypothesis import strategies as st

from vf.harness import Job, describe_exc, exc_key
from vf.encode import encode_file
from vf.model import make_path, split_path

ID = 'C16'
LEVEL = 'exploration'
ALPHABET = ["'", '/', ' ', 'a']
RULE = ("EXHAUSTIVE: every string of length <= 4 over {quote, slash, space, a} as a group name (341) and every pair of such "
        "strings of length <= 3 (85 x 85 = 7225; thorough: length <= 4, 341 x 341 = 116281) as (group, channel): "
        "ObjectPath -> str -> from_string is the identity, the string equals the independently computed path, and all paths "
        "(group and channel paths together) are pairwise distinct. RANDOM: Hypothesis Unicode names (incl. empty, NUL, "
        "quotes, slashes, names equal to another name's escaped form) path-level and END-TO-END: files with 2-5 confusable "
        "(group, channel) pairs written by TdmsWriter and by the independent encoder are read back and every channel must be "
        "found under its own names, report name / group_name / path unchanged, carry its own data, and be listed once. "
        "Non-trivial: a name containing a quote or slash or being empty."
        ' A further writer mode writes the same channels three times, the last time in the opposite order with other '
        'lengths; every file is also opened lazily and each channel read from every start offset.'
        ' Whole-file chunk streams of the lazily opened file are addressed by the same names.'
        ' Names differing only in the case of a letter are forced into some cases.')
ASSUMPTIONS = [
    "TDMS path syntax: /'group'/'channel' with single quotes doubled inside names (vf/model.py make_path)",
    "surrogate code points are excluded (not encodable as UTF-8)",
]


def all_strings(maxlen):
    out = ['']
    for n in range(1, maxlen + 1):
        for tup in itertools.product(ALPHABET, repeat=n):
            out.append(''.join(tup))
    return out


def _tricky(s):
    return s == '' or "'" in s or '/' in s


def check_pair(case, rec):
    from nptdms.common import ObjectPath
    g, c = case['g'], case['c']
    rec.nontrivial(_tricky(g) or (c is not None and _tricky(c)))
    comps = (g,) if c is None else (g, c)
    try:
        p = str(ObjectPath(*comps))
        back = ObjectPath.from_string(p)
    except Exception as e:      # noqa
        rec.violation('roundtrip:raised', '%r: %s' % (comps, describe_exc(e)), key=exc_key(e))
        return
    got = (back.group,) if back.channel is None else (back.group, back.channel)
    if got != comps:
        rec.violation('roundtrip', 'names %r -> path %r -> names %r' % (comps, p, got))
    if p != make_path(*comps):
        rec.violation('path_syntax', 'names %r give path %r, TDMS quoting gives %r' % (comps, p, make_path(*comps)))
    if c is not None and back.group_path() != make_path(g):
        rec.violation('path_syntax', 'group_path() of %r is %r' % (p, back.group_path()))
    if (back.is_group != (c is None)) or (back.is_channel != (c is not None)) or back.is_root:
        rec.violation('roundtrip', 'path %r classified wrongly' % p)


def enum_pairs(maxlen_pair, maxlen_single):
    def fn(shard, nshards):
        singles = all_strings(maxlen_single)
        strs = all_strings(maxlen_pair)
        i = 0
        for g in singles:
            i += 1
            if i % nshards == shard:
                yield {'g': g, 'c': None}
        for g in strs:
            for c in strs:
                i += 1
                if i % nshards == shard:
                    yield {'g': g, 'c': c}
    return fn


def check_injective(case, rec):
    """one case = the whole enumerated name set; all paths must be pairwise distinct"""
    from nptdms.common import ObjectPath
    rec.nontrivial(True)
    seen = {}
    strs = all_strings(case['maxlen'])
    names = [(g,) for g in all_strings(case['maxlen_single'])] + [(g, c) for g in strs for c in strs]
    for comps in names:
        p = str(ObjectPath(*comps))
        if p in seen and seen[p] != comps:
            rec.violation('injective', 'names %r and %r share the path %r' % (seen[p], comps, p))
            return
        seen[p] = comps
    rec.stat('distinct_paths', len(seen))


CONFUSABLE = ['a', "a'", "a''", "'a'", "a'/'b", 'b', "a/b", "/", "'", "''", '', ' ', "'/'", "/'a'", "a'/'", "'/'a",
              "g'/'c", 'g', 'c', "g/c", "é", "é", 'A', 'a ', ' a', '\x00', 'a\x00',
              # line-ending look-alikes: CR LF, LF and CR are three different characters in a name
              'g\r\nx', 'g\nx', 'g\rx', '\r\n', '\n', '\r', 'a\r\n', 'a\n']
name_st = st.one_of(st.sampled_from(CONFUSABLE), st.text(alphabet=ALPHABET, max_size=5),
                    st.text(alphabet=st.characters(blacklist_categories=['Cs']), max_size=6))


@st.composite
def e2e_case(draw):
    pairs = draw(st.lists(st.tuples(name_st, name_st), min_size=2, max_size=5, unique=True))
    # make escaped-form twins likely
    if draw(st.booleans()):
        g, c = pairs[0]
        twin = (g.replace("'", "''"), c) if draw(st.booleans()) else (g + "'/'" + c, draw(name_st))
        if twin not in pairs:
            pairs.append(twin)
    if draw(st.integers(0, 2)) == 0:
        # names that differ only in the case of a letter are different names
        for (g, c) in list(pairs):
            if c.swapcase() != c and (g, c.swapcase()) not in pairs:
                pairs.append((g, c.swapcase()))
                break
            if g.swapcase() != g and (g.swapcase(), c) not in pairs:
                pairs.append((g.swapcase(), c))
                break
    return {'pairs': [list(p) for p in pairs], 'via': draw(st.sampled_from(['writer', 'writer_multi', 'writer_reuse', 'writer_shuffled', 'encoder'])),
            'extra_groups': draw(st.lists(name_st, max_size=2, unique=True))}


def check_e2e(case, rec):
    from nptdms import TdmsFile, TdmsWriter, ChannelObject, GroupObject
    pairs = [tuple(p) for p in case['pairs']]
    rec.nontrivial(any(_tricky(g) or _tricky(c) for g, c in pairs))
    rec.label('via=' + case['via'])
    values = {pc: [k * 10 + 1, k * 10 + 2, k * 10 + 3] for k, pc in enumerate(pairs)}
    if case['via'] == 'encoder':
        entries, active, data = [], [], {}
        for pc in pairs:
            p = make_path(*pc)
            entries.append({'path': p, 'hdr': 'full', 'type': 'i32', 'n': 3})
            active.append([p, 'i32', 3])
            data[p] = [struct.pack('<3i', *values[pc])]
        for g in case['extra_groups']:
            if make_path(g) not in [e['path'] for e in entries]:
                entries.append({'path': make_path(g), 'hdr': 'nodata', 'props': [['tag', 'str', g]]})
        fs = {'segments': [{'be': False, 'interleaved': False, 'entries': entries, 'active': active, 'nchunks': 1,
                            'data': data}]}
        blob, _i, _l = encode_file(fs)
    else:
        out = io.BytesIO()
        try:
            with TdmsWriter(out) as w:
                objs = [ChannelObject(g, c, np.array(values[(g, c)], dtype='i4')) for (g, c) in pairs]
                objs += [GroupObject(g, {'tag': g}) for g in case['extra_groups']]
                if case['via'] == 'writer':
                    w.write_segment(objs)
                elif case['via'] == 'writer_shuffled':
                    # the same channels three times: twice in one order, then in the opposite order with other lengths
                    chans = objs[:len(pairs)]
                    w.write_segment(objs)
                    w.write_segment(chans)
                    tail = {pc: [900 + k * 10 + j for j in range(k % 3 + (1 if k % 2 else 4))] for k, pc in enumerate(pairs)}
                    w.write_segment([ChannelObject(g, c, np.array(tail[(g, c)], dtype='i4')) for (g, c) in reversed(pairs)])
                    values = {pc: values[pc] + values[pc] + tail[pc] for pc in pairs}
                elif case['via'] == 'writer_reuse':
                    # one ChannelObject / GroupObject instance, renamed and refilled before every segment
                    ch = ChannelObject(pairs[0][0], pairs[0][1], np.array(values[pairs[0]], dtype='i4'))
                    for (g, c) in pairs:
                        ch.group, ch.channel = g, c
                        ch.data = np.array(values[(g, c)], dtype='i4')
                        w.write_segment([ch])
                    if case['extra_groups']:
                        go = GroupObject(case['extra_groups'][0], {'tag': case['extra_groups'][0]})
                        for g in case['extra_groups']:
                            go.group = g
                            go.properties = {'tag': g}
                            w.write_segment([go])
                else:
                    for o in objs:
                        w.write_segment([o])
        except Exception as e:      # noqa
            rec.violation('write:raised', describe_exc(e), key=exc_key(e))
            return
        blob = out.getvalue()
    ok, tf = rec.guard('read', lambda: TdmsFile.read(io.BytesIO(blob)))
    if not ok:
        return
    groups = [g.name for g in tf.groups()]
    want_groups = []
    for g, _c in pairs:
        if g not in want_groups:
            want_groups.append(g)
    for g in case['extra_groups']:
        if g not in want_groups:
            want_groups.append(g)
    if sorted(groups) != sorted(want_groups):
        rec.violation('reported_once', 'groups() names %r, written %r' % (groups, want_groups))
    if list(tf) != groups or len(tf) != len(groups) or any(g not in tf for g in groups):
        rec.violation('reported_once', 'iter(file) %r, len(file) %d or the "in" operator disagree with groups() %r' % (
            list(tf), len(tf), groups))
    for (g, c) in pairs:
        if g in tf and (c not in tf[g] or c not in list(tf[g])):
            rec.violation('lookup', 'channel %r is not reported by "in" / iteration of group %r (%r)' % (c, g, list(tf[g])))
    for g in case['extra_groups']:
        if g in tf and tf[g].properties.get('tag') != g:
            rec.violation('confused', 'group %r carries tag %r' % (g, tf[g].properties.get('tag')))
    for (g, c) in pairs:
        try:
            ch = tf[g][c]
        except KeyError:
            rec.violation('lookup', 'channel (%r, %r) cannot be looked up; groups %r' % (g, c, groups))
            continue
        if ch.name != c or ch.group_name != g or ch.path != make_path(g, c):
            rec.violation('reported_names', 'channel (%r, %r) reports name=%r group_name=%r path=%r' % (
                g, c, ch.name, ch.group_name, ch.path))
        if [int(x) for x in ch[:]] != values[(g, c)]:
            rec.violation('confused', 'channel (%r, %r) holds %r, written %r' % (g, c, list(ch[:]), values[(g, c)]))
    # the same look-ups on a lazily opened file: whole channel, its last values only, its first value
    ok, lazy = rec.guard('open', lambda: TdmsFile.open(io.BytesIO(blob)))
    if ok:
        with lazy:
            # whole-file streaming: every chunk is addressed by the same (group, channel) names
            try:
                acc = {pc: [] for pc in pairs}
                for chunk in lazy.data_chunks():
                    listed = [(g.name, c.name) for g in chunk.groups() for c in g.channels()]
                    if sorted(listed) != sorted(pairs):
                        rec.violation('reported_once', 'a file chunk lists channels %r, written %r' % (listed, pairs))
                        break
                    for (g, c) in pairs:
                        cc = chunk[g][c]
                        if cc.offset != len(acc[(g, c)]):
                            rec.violation('confused:chunks', 'file chunk of (%r, %r) reports offset %d after %d values' % (
                                g, c, cc.offset, len(acc[(g, c)])))
                        acc[(g, c)].extend(int(x) for x in cc[:])
                for pc in pairs:
                    if acc[pc] != values[pc]:
                        rec.violation('confused:chunks', 'TdmsFile.data_chunks(): channel %r delivers %r, written %r' % (
                            pc, acc[pc], values[pc]))
                        break
            except Exception as e:      # noqa
                rec.violation('lazy_lookup:raised', 'file chunks: %s' % describe_exc(e), key=exc_key(e))
            for (g, c) in pairs:
                want = values[(g, c)]
                try:
                    ch = lazy[g][c]
                    tails = [[int(x) for x in ch[k:]] for k in range(len(want))]
                    tail_got = next((t for k, t in enumerate(tails) if t != want[k:]), want[6:])
                    first = int(ch[0])
                    whole = [int(x) for x in ch[:]]
                except Exception as e:      # noqa
                    rec.violation('lazy_lookup:raised', 'channel (%r, %r): %s' % (g, c, describe_exc(e)), key=exc_key(e))
                    continue
                if any(t != want[k:] for k, t in enumerate(tails)) or first != want[0] or whole != want:
                    rec.violation('confused:lazy', 'TdmsFile.open: channel (%r, %r) [k:] = %r for some k, [0] = %r, [:] = %r; written %r' % (
                        g, c, tail_got, first, whole, want))
    # names that were not written - in particular the quoted / escaped forms of names that were - must not resolve
    probes = set(CONFUSABLE)
    for g in want_groups:
        probes.update([make_path(g), g.replace("'", "''"), "'" + g + "'", g + "'", "/" + g, g + "/"])
    for (g, c) in pairs:
        probes.update([make_path(g, c), make_path(g) + "/'" + c + "'", g + "'/'" + c])
    for name in sorted(probes):
        if name in want_groups:
            continue
        try:
            found = tf[name]
        except KeyError:
            found = None
        except Exception as e:      # noqa
            rec.violation('lookup:raised', 'file[%r]: %s' % (name, describe_exc(e)), key=exc_key(e))
            continue
        if found is not None or (name in tf):
            rec.violation('lookup_absent', 'no group named %r was written, but file[%r] returned %r (groups %r)' % (
                name, name, getattr(found, 'path', found), want_groups))
            break
    for g in want_groups:
        if g not in tf:
            continue
        wanted = [c for (gg, c) in pairs if gg == g]
        for name in sorted(probes):
            if name in wanted:
                continue
            try:
                found = tf[g][name]
            except KeyError:
                continue
            except Exception as e:      # noqa
                rec.violation('lookup:raised', 'file[%r][%r]: %s' % (g, name, describe_exc(e)), key=exc_key(e))
                continue
            rec.violation('lookup_absent', 'group %r has no channel %r, but the lookup returned %r' % (
                g, name, getattr(found, 'path', found)))
            break
    for g in want_groups:
        if g in tf:
            names = [c.name for c in tf[g].channels()]
            want = [c for (gg, c) in pairs if gg == g]
            if sorted(names) != sorted(want):
                rec.violation('reported_once', 'group %r channels() %r, written %r' % (g, names, want))


@st.composite
def random_pair(draw):
    g = draw(name_st)
    c = draw(st.one_of(st.none(), name_st))
    return {'g': g, 'c': c}


def jobs(tier):
    if tier == 'quick':
        return [Job('exhaustive_pairs_le3', 'enum', enum_pairs(3, 4), exhaustive=True, check=check_pair,
                    note='all group names of length <= 4 and all (group, channel) pairs of length <= 3+3 over 4 symbols'),
                Job('injective_le3', 'enum', lambda s, n: iter([{'maxlen': 3, 'maxlen_single': 4}] if s == 0 else []),
                    exhaustive=True, check=check_injective, shards=1, note='pairwise distinctness of all 7566 paths'),
                Job('unicode_pairs', 'hyp', random_pair, n=4000, check=check_pair),
                Job('end_to_end', 'hyp', e2e_case, n=3000, check=check_e2e)]
    return [Job('exhaustive_pairs_le4', 'enum', enum_pairs(4, 5), exhaustive=True, check=check_pair,
                note='all group names of length <= 5 and all pairs of length <= 4+4 over 4 symbols'),
            Job('injective_le4', 'enum', lambda s, n: iter([{'maxlen': 4, 'maxlen_single': 5}] if s == 0 else []),
                exhaustive=True, check=check_injective, shards=1, note='pairwise distinctness of all paths up to 4+4'),
            Job('unicode_pairs', 'hyp', random_pair, n=200000, check=check_pair),
            Job('end_to_end', 'hyp', e2e_case, n=80000, check=check_e2e)]


def check(case, rec):
    if 'pairs' in case:
        return check_e2e(case, rec)
    if 'maxlen' in case:
        return check_injective(case, rec)
    return check_pair(case, rec)
