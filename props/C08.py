"""C08 - TdmsWriter emits structurally valid segments and a faithful index file."""
from hypothesis import strategies as st

from vf.harness import Job, describe_exc, exc_key
from vf import wprog as W
from vf.files import scratch_dir
from vf.parse import parse_file, decode_raw, StructuralError
from vf.model import split_path, make_path, TOC_META, TOC_NEWLIST, TOC_RAW, TYPES
from props.C07 import post_check        # noqa  same acceptance-rate rule

ID = 'C08'
LEVEL = 'exploration'
RULE = ("Same Hypothesis write programs as C07 with index_file off / True (path) / a stream. The bytes TdmsWriter produced "
        "are walked by the independent strict parser: tag, ToC (MetaData|NewObjList), requested version; raw_data_offset == "
        "bytes consumed by parsing the metadata; every path / property / string length field matches the bytes that follow; "
        "the raw-index length field equals the index bytes that follow it (20, or 28 for strings); next_segment_offset - "
        "raw_data_offset == sum(count x size) with string totals == 4n + text bytes and non-decreasing offsets; segments tile "
        "the file; the first segment declares '/'; every channel's group is declared no later than the channel. The index "
        "file must equal, byte for byte, the per-segment concatenation 'TDSh' + lead-in[4:] + metadata. Non-trivial: a string "
        "channel, or >=2 segments, or an index file requested."
        ' A further job writes long arrays whose lengths lie on and next to powers of two to paths and streams; '
        'programs may overwrite an existing file written by an earlier writer (same groups) or use one writer object '
        'for all append sessions.'
        ' write_segment receives lists, tuples or one-shot iterators.'
        " Wide programs, datetime64[ns] / [ms] values, names and texts containing 'TDSm' / 'TDSh' and in-place "
        'property changes on re-used objects are included.')
ASSUMPTIONS = [
    "vf/parse.py implements the NI TDMS layout (raw index length field counts itself: 20 bytes, 28 for strings)",
    "programs the writer rejects are outside the statement",
]


def check(case, rec):
    prog = case
    with scratch_dir() as d:
        try:
            res = W.run_program(prog, d)
        except Exception as e:      # noqa
            rec.violation('writer:raised', describe_exc(e), key=exc_key(e))
            return
    if not res['accepted']:
        rec.stat('programs_rejected')
        return
    rec.stat('programs_accepted')
    data = res['data']
    nseg_expected = sum(1 for c in prog['sessions'] for call in c if not isinstance(call, dict))
    has_str = any(o['kind'] == 'channel' and ('str' in o['form']) for calls in prog['sessions'] for call in calls
                  if not isinstance(call, dict) for o in call)
    rec.nontrivial(has_str or nseg_expected >= 2 or bool(prog['index']))
    rec.label('index=%s' % prog['index'], 'dest=' + prog['dest'])
    if prog.get('file_name') and not prog['file_name'].endswith('.tdms'):
        rec.label('file_name_without_tdms_extension')
    if res['model'].rejected_calls:
        rec.label('with_rejected_calls_in_between')
    if has_str:
        rec.label('string_channel')
    try:
        segs = parse_file(data)
    except StructuralError as e:
        rec.violation('structure:parse', str(e)[:300])
        return
    if len(segs) != nseg_expected:
        rec.violation('structure:segment_count', '%d segments parsed, %d write_segment calls' % (len(segs), nseg_expected))
    declared_groups = set()
    pos = 0
    for i, s in enumerate(segs):
        if s['start'] != pos:
            rec.violation('structure:tiling', 'segment %d starts at %d, previous ended at %d' % (i, s['start'], pos))
        pos = s['end']
        if not (s['toc'] & TOC_META and s['toc'] & TOC_NEWLIST):
            rec.violation('structure:toc', 'segment %d ToC 0x%x lacks MetaData|NewObjList' % (i, s['toc']))
        if s['version'] != prog['version']:
            rec.violation('structure:version', 'segment %d version %d, requested %d' % (i, s['version'], prog['version']))
        if s['meta_consumed'] != s['raw_off']:
            rec.violation('structure:raw_data_offset', 'segment %d: metadata parses to %d bytes, raw_data_offset says %d' % (
                i, s['meta_consumed'], s['raw_off']))
        for o in s['objects']:
            if o['kind'] == 'full':
                if o['index_header'] != o['index_bytes_following'] + 4:
                    rec.violation('structure:raw_index_length',
                                  'segment %d object %s (%s): raw index length field %d, but %d index bytes follow it '
                                  '(field counts itself: expected %d)' % (i, o['path'], o['type'], o['index_header'],
                                                                          o['index_bytes_following'],
                                                                          o['index_bytes_following'] + 4))
                if o['dim'] != 1:
                    rec.violation('structure:dimension', 'segment %d object %s: dimension %d' % (i, o['path'], o['dim']))
        try:
            decode_raw(s)
        except StructuralError as e:
            rec.violation('structure:raw_data', str(e)[:300])
        if i == 0 and not any(o['path'] == '/' for o in s['objects']):
            rec.violation('structure:root_first', 'first segment does not declare the root object')
        seen_in_seg = set()
        for o in s['objects']:
            try:
                comps = split_path(o['path'])
            except ValueError:
                rec.violation('structure:path', 'segment %d: unparsable object path %r' % (i, o['path']))
                continue
            if len(comps) == 1:
                seen_in_seg.add(comps[0])
            elif len(comps) == 2:
                if comps[0] not in declared_groups and comps[0] not in seen_in_seg:
                    rec.violation('structure:group_before_channel',
                                  'segment %d: channel %s appears before any declaration of its group' % (i, o['path']))
        declared_groups |= seen_in_seg
    if pos != len(data):
        rec.violation('structure:tiling', 'segments end at %d, file has %d bytes' % (pos, len(data)))
    # ---- index file
    if prog['index']:
        idx = res['index']
        want = b''.join(b'TDSh' + s['lead_in'][4:] + s['meta_bytes'] for s in segs)
        if idx != want:
            n = next((k for k in range(min(len(idx), len(want))) if idx[k] != want[k]), min(len(idx), len(want)))
            rec.violation('index_twin', 'index file differs from the data file without raw data at byte %d '
                          '(index %d bytes, expected %d)' % (n, len(idx), len(want)))


def jobs(tier):
    if tier == 'quick':
        return [Job('programs', 'hyp', lambda: W.program(), n=4000),
                Job('wide_programs', 'hyp', lambda: W.wide_program(), n=32,
                    note='100-320 channel objects per call, objects with up to 300 properties'),
                Job('long_arrays', 'hyp', lambda: W.big_program(), n=200,
                    note='array lengths on and next to powers of two between 512 and 196608 values; path and stream targets')]
    return [Job('programs', 'hyp', lambda: W.program(), n=120000),
            Job('long_programs', 'hyp', lambda: W.program(max_sessions=3, max_calls=5, max_objs=6, max_len=40), n=20000),
            Job('wide_programs', 'hyp', lambda: W.wide_program(), n=800),
            Job('long_arrays', 'hyp', lambda: W.big_program(), n=5000)]
