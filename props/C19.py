"""C19 - Partial reads touch only the part of the file they need."""
import io

from hypothesis import strategies as st

from vf.harness import Job, describe_exc, exc_key
from vf import strategies as S
from vf.encode import encode_file
from vf.expect import expected_content
from vf.observe import RecordingStream
from vf.model import split_path

ID = 'C19'
LEVEL = 'exploration'
ALLOWANCE = 64
RULE = ("Hypothesis draws multi-segment, multi-chunk files (contiguous / interleaved / strings, channels absent from some "
        "segments, up to 40 values per chunk; DAQmx files in a second job) opened with TdmsFile.open on a recording stream; "
        "the log is cleared after open and 24 drawn requests per file (read_data windows, slices, integer indices, repeated "
        "index into the chunk just read) are served. Oracle from the encoder's byte map: every logged read with >0 bytes "
        "lies inside the raw bytes of a chunk overlapping the request (contiguous: inside the requested channel's own byte "
        "range of that chunk) or inside the first %d bytes of a segment between the first and last segment holding "
        "requested values; total bytes <= those regions; an index into the chunk fetched by the previous index reads "
        "nothing. One evaluation = one file with its requests; non-trivial: some request covers < 50%% of a channel "
        "whose data spans >= 3 chunks. Shortened interleaved middle segments (byte map ends where the raw data ends) and "
        "100+ segment twin files are included.") % ALLOWANCE
ASSUMPTIONS = [
    "byte map of every chunk comes from the independent encoder",
    "per-segment allowance of %d bytes at the segment start (the tree reads the 4-byte tag); zero-byte reads ignored" % ALLOWANCE,
    "reads performed by open() itself (metadata, index building on first access to a channel) are outside the statement: "
    "the channel index is warmed with one read before the log is cleared",
]


def allowed_regions(ex, lay, p, a, b):
    """(list of (lo, hi) raw regions, list of touched segment indices) for values [a, b) of channel p"""
    table = [r for r in ex.chunk_table(p) if r[3] > 0]
    raw = []
    segs = set()
    for (s, k, first, cnt) in table:
        if first < b and first + cnt > a:
            L = lay[s]
            ch = L['layout']['chunks'][k]
            segs.add(s)
            objs = ch.get('objs')
            if objs is not None and isinstance(objs.get(p), list):
                lo, hi = objs[p]
                raw.append((L['data_pos'] + lo, L['data_pos'] + hi))
            else:
                raw.append((L['data_pos'] + ch['start'], L['data_pos'] + ch['start'] + ch['size']))
    if segs:
        touched = list(range(min(segs), max(segs) + 1))
    else:
        touched = []
    # merge adjacent / overlapping regions: one read may legitimately span neighbouring chunks
    raw.sort()
    merged = []
    for (lo, hi) in raw:
        if merged and lo <= merged[-1][1]:
            merged[-1] = (merged[-1][0], max(merged[-1][1], hi))
        else:
            merged.append((lo, hi))
    return merged, touched


def inside(pos, n, regions):
    for (lo, hi) in regions:
        if lo <= pos and pos + n <= hi:
            return True
    return False


def check(case, rec):
    from nptdms import TdmsFile
    fs = case['fs']
    data, _i, lay = encode_file(fs)
    ex = expected_content(fs)
    chans = [p for p in ex.channel_paths() if ex.length(p) > 0 and ex.objects[p]['type'] is not None]
    rec.label(*(['daqmx'] if any(sg.get('daqmx') for sg in fs['segments']) else S.spec_classes(fs)))
    if not chans:
        return
    truncated = False
    if case.get('cut') is not None and lay and lay[-1]['end'] - lay[-1]['data_pos'] > 1:
        data = data[:lay[-1]['data_pos'] + 1 + case['cut'] % (lay[-1]['end'] - lay[-1]['data_pos'] - 1)]
        truncated = True
        rec.label('truncated_final_chunk')
    stream = RecordingStream(data)
    ok, tf = rec.guard('open', lambda: TdmsFile.open(stream))
    if not ok:
        return
    nt = False
    try:
        # warm the per-channel index (built lazily on first access) so that it is not attributed to a request
        for p in chans:
            g, c = split_path(p)
            rec.guard('warm', lambda: tf[g][c].read_data(0, 0))
        all_leads = [(L['start'], L['start'] + ALLOWANCE) for L in lay]
        prev_index_chunk = None
        for req in case['reqs']:
            kind, ci, x, y = req
            p = chans[ci % len(chans)]
            g, c = split_path(p)
            ch = tf[g][c]
            n = len(ch) if truncated else ex.length(p)
            if n == 0:
                continue
            nchunks = len([r for r in ex.chunk_table(p) if r[3] > 0])
            if kind == 'window_to_chunk_start':
                # a window that ends exactly where some chunk starts
                starts = [r[2] for r in ex.chunk_table(p) if r[3] > 0 and 0 < r[2] <= n]
                if not starts:
                    continue
                bnd = starts[y % len(starts)]
                x, y, kind = x % bnd, None, 'window'
                y = bnd - x
            stream.log = []
            try:
                if kind == 'window':
                    a = x % (n + 2)
                    l = y % (n + 2)
                    ch.read_data(a, l)
                    a, b = min(a, n), min(n, a + l)
                elif kind == 'slice':
                    a = x % (n + 1)
                    b = y % (n + 1)
                    if a > b:
                        a, b = b, a
                    ch[a:b]
                else:
                    a = x % n
                    if y % 2:
                        ch[a - n]           # the same element addressed from the end
                    else:
                        ch[a]
                    b = a + 1
            except Exception as e:      # noqa
                rec.violation('request:raised', '%r on %s: %s' % (req, p, describe_exc(e)), key=exc_key(e))
                continue
            log = list(stream.log)
            if b <= a:
                # an empty request sits on a position; the chunk(s) around that position count as overlapping
                raw, touched = allowed_regions(ex, lay, p, max(a - 1, 0), min(a + 1, n))
            else:
                raw, touched = allowed_regions(ex, lay, p, a, b)
            if kind == 'index':
                table = [r for r in ex.chunk_table(p) if r[3] > 0 and r[2] <= a < r[2] + r[3]]
                this_chunk = (p, table[0][0], table[0][1])
                if prev_index_chunk == this_chunk:
                    if log:
                        rec.violation('cached_chunk', '%s[%d] after an index into the same chunk read %d bytes in %d reads' % (
                            p, a, sum(x[1] for x in log), len(log)))
                    rec.label('repeat_index_same_chunk')
                    continue
                prev_index_chunk = this_chunk
            else:
                prev_index_chunk = None
            if b <= a:
                leads = all_leads
                budget = sum(hi - lo for (lo, hi) in raw) + ALLOWANCE * len(lay)
            else:
                leads = [(lay[s]['start'], lay[s]['start'] + ALLOWANCE) for s in touched]
                budget = sum(hi - lo for (lo, hi) in raw) + ALLOWANCE * len(touched)
                if nchunks >= 3 and (b - a) * 2 < n:
                    nt = True
            total = 0
            for (pos, nb) in log:
                total += nb
                if not (inside(pos, nb, raw) or inside(pos, nb, leads)):
                    rec.violation('outside_request', '%s %s values [%d,%d) of %d: read of %d bytes at %d is outside the '
                                  'chunks overlapping the request %r and the lead-ins of segments %r' % (
                                      kind, p, a, b, n, nb, pos, raw[:4], touched))
                    break
            else:
                if total > budget:
                    rec.violation('too_much', '%s %s values [%d,%d) of %d: %d bytes read, bound %d' % (
                        kind, p, a, b, n, total, budget))
            rec.stat('requests')
            rec.stat('bytes_read', total)
            rec.stat('bytes_bound', budget)
        rec.nontrivial(nt)
    finally:
        tf.close()


@st.composite
def cases(draw, **kw):
    opts = dict(min_segments=2, max_segments=6, max_channels=3, max_n=40, max_chunks=5, values='unique', props=False,
                pad=True, nodata_entries=False, names='simple', max_groups=2, zero_n=True)
    opts.update(kw)
    fs = draw(S.file_spec(**opts))
    if draw(st.integers(0, 2)) == 0:
        # one interleaved segment before the last one ends in an incomplete chunk (complete rows only are its content)
        fs = draw(S.shorten_interleaved_middle(fs))
    reqs = []
    for _ in range(24):
        kind = draw(st.sampled_from(['window', 'window_to_chunk_start', 'slice', 'index', 'index', 'index']))
        reqs.append([kind, draw(st.integers(0, 7)), draw(st.integers(0, 10 ** 5)), draw(st.integers(0, 10 ** 5))])
        if kind == 'index' and draw(st.booleans()):
            # neighbour index: often falls into the chunk just read
            r = reqs[-1]
            reqs.append(['index', r[1], r[2] + draw(st.integers(-1, 1)), draw(st.integers(0, 1))])
    cut = draw(st.one_of(st.none(), st.none(), st.integers(0, 10 ** 6)))
    if cut is not None and any(t == 'str' for (_p, t, _n) in fs['segments'][-1]['active']):
        cut = None
    return {'fs': fs, 'reqs': reqs, 'cut': cut}


@st.composite
def twin_cases(draw):
    """100+ segment files whose channels share a long prefix of per-segment counts (offset tables that look alike)"""
    base = draw(cases(max_segments=2, min_segments=2))
    return {'fs': draw(S.twin_long_file()), 'reqs': base['reqs'], 'cut': None}


@st.composite
def daqmx_cases(draw):
    from vf.daqmx import daqmx_file
    fs = draw(daqmx_file(max_len=12, max_chunks=4, max_segments=3))
    base = draw(cases(max_segments=2, min_segments=2))
    return {'fs': fs, 'reqs': base['reqs'], 'cut': None}


def jobs(tier):
    if tier == 'quick':
        return [Job('files', 'hyp', lambda: cases(), n=6000),
                Job('long_files_shared_offset_prefix', 'hyp', twin_cases, n=64),
                Job('daqmx_files', 'hyp', daqmx_cases, n=1000)]
    return [Job('files', 'hyp', lambda: cases(), n=40000),
            Job('large_chunks', 'hyp', lambda: cases(max_n=400, max_chunks=6), n=5000),
            Job('long_files_shared_offset_prefix', 'hyp', twin_cases, n=2000),
            Job('daqmx_files', 'hyp', daqmx_cases, n=20000)]
