"""C18 - Thermocouple conversions follow the NIST ITS-90 reference functions."""
import io
import json
import os

import numpy as np
from hypothesis import strategies as st

from vf.harness import Job, describe_exc, exc_key, VERIF_DIR
from vf import scales as SC
from vf.encode import encode_file
from vf.model import make_path

ID = 'C18'
LEVEL = 'exploration'
TYPES = 'BEJKNRST'
NI_CODES = {'B': 10047, 'E': 10055, 'J': 10072, 'K': 10073, 'N': 10077, 'R': 10082, 'S': 10085, 'T': 10086}
# validity range (degC) of the NIST inverse functions and the largest error NIST states for them (degC)
INV_RANGE = {'B': (250.0, 1820.0), 'E': (-200.0, 1000.0), 'J': (-210.0, 1200.0), 'K': (-200.0, 1372.0),
             'N': (-200.0, 1300.0), 'R': (-50.0, 1768.1), 'S': (-50.0, 1768.1), 'T': (-200.0, 400.0)}
INV_ERR = {'B': 0.03, 'E': 0.03, 'J': 0.05, 'K': 0.06, 'N': 0.04, 'R': 0.02, 'S': 0.02, 'T': 0.04}
RULE = ("Per type (B E J K N R S T) and direction: a dense uniform grid over the whole range evaluated in ONE array call "
        "(2*10^4 points quick, 2*10^5 thorough; arrays therefore mix pieces and signs), every piece boundary with its +-1, +-2 "
        "ulp neighbours evaluated as scalars and as arrays, Hypothesis floats concentrated around boundaries, float32 and "
        "float64 input through ThermocoupleScaling (all 8 NI type codes, both directions, directly and through a generated "
        "file). Oracle: forward = the NIST ITS-90 tables in vf/data/nist_its90_forward.json (independent transcription, "
        "evaluated with our own Horner + Gaussian term) within 1e-9 mV + 1e-12 relative, continuity at boundaries, strictly "
        "increasing where the reference is, never NaN in range; inverse: |mv_to_celsius(E_ref(T)) - T| <= NIST's stated error "
        "for the type (+1e-6) over the inverse validity range; scaling direction 1 = 1000 x E(T) uV, direction 0 = degC from "
        "uV. One evaluation = one grid block / boundary set / drawn point set; non-trivial: contains a point within 1 degC "
        "of a piece boundary or an inverse-direction point."
        ' Further: thermocouple scales fed by Linear scales (input source 0 or 1) through a file, and arrays that mix '
        'valid samples with NaN / +-inf / far-out-of-range ones (each valid sample must convert as it does on its own '
        'and per the reference).'
        ' ThermocoupleScaling over arrays of 2^k - 1, 2^k, 2^k + 1 samples; a result must survive the next conversion '
        'of an equally long array.'
        " Another thermocouple type's scaling object is created and used between construction and use."
        " The inverse functions' error is also compared bin by bin (400 voltage bins) with a frozen profile of the "
        'pinned tree (regression oracle).')
ASSUMPTIONS = [
    "forward oracle trusts the transcription of the NIST tables shipped in thermocouples_reference (frozen JSON copy)",
    "inverse coefficients can only be judged through NIST's error bound (changes below the bound are invisible by definition)",
    "type B is not monotone below ~21 degC: increasing is only required where the reference is",
    "inverse_error_profile is a regression oracle: vf/data/thermocouple_inverse_profile.json was measured on the pinned tree "
    "(whose inverse functions pass the NIST bound per type); a bin may get 1.5 x + 0.0002 degC worse before it is reported",
]

_TABLES = None


def tables():
    global _TABLES
    if _TABLES is None:
        _TABLES = json.load(open(os.path.join(VERIF_DIR, 'vf', 'data', 'nist_its90_forward.json')))['types']
    return _TABLES


def ref_emf(t, T):
    """reference E(T) in mV (own Horner + exponential), NaN outside the table range"""
    T = np.asarray(T, dtype=np.float64)
    out = np.full(T.shape, np.nan)
    pieces = tables()[t]
    for i, p in enumerate(pieces):
        last = i == len(pieces) - 1
        m = (T >= p['lo']) & ((T <= p['hi']) if last else (T < p['hi']))
        if not m.any():
            continue
        x = T[m]
        acc = np.zeros(x.shape)
        for c in p['coeffs_high_first']:
            acc = acc * x + c
        if p['exp'] is not None:
            a0, a1, a2 = p['exp']
            acc = acc + a0 * np.exp(a1 * (x - a2) ** 2)
        out[m] = acc
    return out


def tc(t):
    from nptdms import thermocouples
    return getattr(thermocouples, 'type_' + t.lower())


def type_range(t):
    p = tables()[t]
    return p[0]['lo'], p[-1]['hi']


def boundaries(t):
    p = tables()[t]
    return [x['hi'] for x in p[:-1]] + ([0.0] if all(abs(x['hi']) > 0 for x in p[:-1]) else [])


def neighbours(b):
    pts = [b]
    up = dn = b
    for _ in range(2):
        up = np.nextafter(up, np.inf)
        dn = np.nextafter(dn, -np.inf)
        pts += [float(up), float(dn)]
    return pts


def check_forward_points(rec, t, T, how):
    """T: float64 array inside the type's range"""
    want = ref_emf(t, T)
    try:
        if how == 'array':
            got = np.asarray(tc(t).celsius_to_mv(T.copy()), dtype=np.float64)
        else:
            got = np.array([float(tc(t).celsius_to_mv(np.float64(x))) for x in T])
    except Exception as e:      # noqa
        rec.violation('forward:raised', 'type %s: %s' % (t, describe_exc(e)), key=exc_key(e))
        return None
    if np.isnan(got).any():
        i = int(np.nonzero(np.isnan(got))[0][0])
        rec.violation('total:forward', 'type %s: celsius_to_mv(%r) is NaN (%s call)' % (t, T[i], how))
        return got
    tol = 1e-9 + 1e-12 * np.abs(want)
    bad = np.nonzero(np.abs(got - want) > tol)[0]
    if len(bad):
        i = int(bad[np.argmax(np.abs(got - want)[bad])])
        rec.violation('forward:' + t, 'type %s: celsius_to_mv(%r) = %r mV, NIST reference %r mV (difference %.3g, %s call, '
                      '%d of %d points differ)' % (t, T[i], got[i], want[i], got[i] - want[i], how, len(bad), len(T)))
    return got


def check_inverse_points(rec, t, T, how='array'):
    lo, hi = INV_RANGE[t]
    T = T[(T >= lo) & (T <= hi)]
    if not len(T):
        return
    E = ref_emf(t, T)
    try:
        if how == 'array':
            got = np.asarray(tc(t).mv_to_celsius(E.copy()), dtype=np.float64)
        else:
            got = np.array([float(tc(t).mv_to_celsius(np.float64(x))) for x in E])
    except Exception as e:      # noqa
        rec.violation('inverse:raised', 'type %s: %s' % (t, describe_exc(e)), key=exc_key(e))
        return
    if np.isnan(got).any():
        i = int(np.nonzero(np.isnan(got))[0][0])
        rec.violation('total:inverse', 'type %s: mv_to_celsius(%r mV) is NaN (true T %r)' % (t, E[i], T[i]))
        return
    err = np.abs(got - T)
    rec.maxstat('max_inverse_error_' + t, float(err.max()))
    bad = np.nonzero(err > INV_ERR[t] + 1e-6)[0]
    if len(bad):
        i = int(bad[np.argmax(err[bad])])
        rec.violation('inverse:' + t, 'type %s: mv_to_celsius(E(%r degC) = %r mV) = %r, error %.4f degC exceeds NIST bound %.2f '
                      '(%d of %d points)' % (t, T[i], E[i], got[i], err[i], INV_ERR[t], len(bad), len(T)))


def check_grid(case, rec):
    t = case['type']
    lo, hi = type_range(t)
    n = case['n']
    T = np.linspace(lo, hi, n)
    rec.nontrivial(True)
    rec.label('type=' + t, 'grid')
    got = check_forward_points(rec, t, T, 'array')
    if got is not None and not np.isnan(got).any():
        ref = ref_emf(t, T)
        inc_ref = np.diff(ref) > 0
        inc_got = np.diff(got) > 0
        bad = np.nonzero(inc_ref & ~inc_got)[0]
        if len(bad):
            i = int(bad[0])
            rec.violation('monotone:' + t, 'type %s: E(%r)=%r -> E(%r)=%r is not increasing although the reference is' % (
                t, T[i], got[i], T[i + 1], got[i + 1]))
    check_inverse_points(rec, t, T)
    # separate halves must agree with the single call (elementwise function)
    try:
        a = np.asarray(tc(t).celsius_to_mv(T[: n // 2].copy()))
        b = np.asarray(tc(t).celsius_to_mv(T[n // 2:].copy()))
        if got is not None and not np.array_equal(np.concatenate([a, b]), got, equal_nan=True):
            rec.violation('forward:elementwise', 'type %s: evaluating the grid in one call differs from evaluating it in halves' % t)
    except Exception as e:      # noqa
        rec.violation('forward:raised', describe_exc(e), key=exc_key(e))


def check_boundaries(case, rec):
    t = case['type']
    rec.nontrivial(True)
    rec.label('type=' + t, 'boundaries')
    lo, hi = type_range(t)
    pts = []
    for b in boundaries(t) + [lo, hi]:
        pts += [x for x in neighbours(b) if lo <= x <= hi]
    T = np.array(sorted(set(pts)))
    for how in ('scalar', 'array'):
        check_forward_points(rec, t, T, how)
        check_inverse_points(rec, t, T, how)
    for b in boundaries(t):
        below, above = np.nextafter(b, -np.inf), b
        try:
            e1 = float(tc(t).celsius_to_mv(np.float64(below)))
            e2 = float(tc(t).celsius_to_mv(np.float64(above)))
        except Exception as e:      # noqa
            rec.violation('forward:raised', describe_exc(e), key=exc_key(e))
            continue
        if not abs(e2 - e1) < 1e-3:
            rec.violation('continuity:' + t, 'type %s jumps by %.4g mV at %r degC' % (t, e2 - e1, b))
        lo_i, hi_i = INV_RANGE[t]
        if lo_i < b < hi_i:
            try:
                t1 = float(tc(t).mv_to_celsius(np.float64(ref_emf(t, np.array([below]))[0])))
                t2 = float(tc(t).mv_to_celsius(np.float64(ref_emf(t, np.array([above]))[0])))
                if abs(t2 - t1) > 2 * INV_ERR[t]:
                    rec.violation('continuity:inverse:' + t, 'inverse of type %s jumps by %.4g degC at %r degC' % (t, t2 - t1, b))
            except Exception as e:      # noqa
                rec.violation('inverse:raised', describe_exc(e), key=exc_key(e))
    # inverse boundaries in voltage: walk the library's own total range densely near the reference voltages of boundaries
    for b in boundaries(t):
        e = ref_emf(t, np.array([b]))[0]
        V = e + np.linspace(-0.05, 0.05, 2001)
        Tb = tc(t).mv_to_celsius(V.copy())
        if np.isnan(np.asarray(Tb)).any():
            rec.violation('total:inverse', 'type %s: mv_to_celsius is NaN near %r mV' % (t, e))


@st.composite
def point_case(draw):
    t = draw(st.sampled_from(list(TYPES)))
    lo, hi = type_range(t)
    bs = boundaries(t) + [lo, hi]
    pts = []
    for _ in range(draw(st.integers(1, 8))):
        if draw(st.booleans()):
            b = draw(st.sampled_from(bs))
            x = b + draw(st.floats(min_value=-1.0, max_value=1.0, allow_nan=False))
        else:
            x = draw(st.floats(min_value=lo, max_value=hi, allow_nan=False))
        pts.append(min(max(x, lo), hi))
    return {'type': t, 'points': pts, 'direction': draw(st.integers(0, 1)), 'f32': draw(st.booleans()),
            'via_file': draw(st.booleans()),
            # Linear scales in front of the thermocouple scale (through a file only): see vf.scales.chain_before
            'chain': [draw(st.integers(0, 3)), draw(st.sampled_from([2.0, 0.5, -4.0, 1024.0])), draw(st.sampled_from([0.0, 0.0, 64.0]))]}


def check_scaling(case, rec):
    """ThermocoupleScaling with TDMS's microvolt convention, all type codes, both directions, f32/f64, direct / via file"""
    from nptdms import scaling, TdmsFile
    t = case['type']
    T = np.array(case['points'], dtype=np.float64)
    lo, hi = type_range(t)
    near = any(abs(x - b) <= 1.0 for x in T for b in boundaries(t))
    rec.nontrivial(near or case['direction'] == 0)
    rec.label('type=' + t, 'direction=%d' % case['direction'], 'f32' if case['f32'] else 'f64')
    dt = np.float32 if case['f32'] else np.float64
    if case['direction'] == 1:
        inp = T.astype(dt)
        Tin = inp.astype(np.float64)
        Tin = np.clip(Tin, lo, hi)
        inp = Tin.astype(dt)
        Tin = inp.astype(np.float64)
        ok = (Tin >= lo) & (Tin <= hi)
        want = 1000.0 * ref_emf(t, Tin)
    else:
        ilo, ihi = INV_RANGE[t]
        T = T[(T >= ilo) & (T <= ihi)]
        if not len(T):
            return
        uv = 1000.0 * ref_emf(t, T)
        inp = uv.astype(dt)
        ok = np.ones(len(T), dtype=bool)
        want = T
    try:
        if case['via_file']:
            p = make_path('g', 'c')
            sensor = {'type': 'Thermocouple', 'src': None, 'p': {'type_code': NI_CODES[t], 'direction': case['direction']}}
            shape, m, c = case.get('chain') or [0, 2.0, 0.0]
            if case['f32']:
                shape = 0               # the exact pre-image of a float32 sample under the Linear scales needs float64 raw data
            graph, raw_for = SC.chain_before(sensor, shape, m, c)
            if shape:
                rec.label('thermocouple_fed_by_scale_%d_of_%d' % (graph[-1]['src'], len(graph)))
                inp = raw_for(inp.astype(np.float64))
                # what the thermocouple scale really sees: the Linear scales applied to the raw data (rounding included)
                seen, _m = SC.eval_graph(graph, inp, upto=graph[-1]['src'])
                if case['direction'] == 1:
                    ok = (seen >= lo) & (seen <= hi)
                    want = 1000.0 * ref_emf(t, np.clip(seen, lo, hi))
            seg = {'be': False, 'interleaved': False,
                   'entries': [{'path': p, 'hdr': 'full', 'type': 'f32' if case['f32'] else 'f64', 'n': len(inp),
                                'props': SC.graph_props(graph, True)}],
                   'active': [[p, 'f32' if case['f32'] else 'f64', len(inp)]], 'nchunks': 1, 'data': {p: [inp.tobytes()]}}
            other_t = TYPES[(TYPES.index(t) + 3) % len(TYPES)]
            p2 = make_path('g', 'other')
            seg['entries'].append({'path': p2, 'hdr': 'full', 'type': 'f64', 'n': 1, 'props': SC.graph_props(
                [{'type': 'Thermocouple', 'src': None, 'p': {'type_code': NI_CODES[other_t], 'direction': 1 - case['direction']}}], True)})
            seg['active'].append([p2, 'f64', 1])
            seg['data'][p2] = [np.array([25.0]).tobytes()]
            data, _i, _l = encode_file({'segments': [seg]})
            tfile = TdmsFile.read(io.BytesIO(data))
            ch = tfile['g']['c']
            ch.read_data(0, 1)
            tfile['g']['other'].read_data()          # the other channel's scaling is created and used in between
            first = np.array(ch.read_data(), dtype=np.float64)
            got = np.asarray(ch[:], dtype=np.float64)
            if first.tobytes() != got.tobytes() or np.asarray(ch.raw_data).tobytes() != inp.tobytes():
                rec.violation('scaling:raw_modified', 'type %s direction %d: repeated scaled reads differ or raw data changed '
                              '(first %r, then %r)' % (t, case['direction'], first[:3], got[:3]))
                return
        else:
            arg = inp.copy()
            sc_obj = scaling.ThermocoupleScaling(NI_CODES[t], case['direction'], 0xFFFFFFFF)
            # another channel's scaling (other type, other direction) comes into being before this one is used
            other_t = TYPES[(TYPES.index(t) + 3) % len(TYPES)]
            decoy = scaling.ThermocoupleScaling(NI_CODES[other_t], 1 - case['direction'], 0xFFFFFFFF)
            decoy.scale(np.array([25.0]))
            got = np.array(sc_obj.scale(arg), dtype=np.float64)
            if arg.tobytes() != inp.tobytes():
                rec.violation('scaling:raw_modified', 'type %s direction %d: scale() overwrote its input array' % (
                    t, case['direction']))
                return
    except Exception as e:      # noqa
        rec.violation('scaling:raised', describe_exc(e), key=exc_key(e))
        return
    if case['direction'] == 1:
        tol = 1e-6 + 1e-12 * np.abs(want)
        bad = np.nonzero(ok & ~(np.abs(got - want) <= tol))[0]
        if len(bad):
            i = int(bad[0])
            rec.violation('scaling:degC_to_uV', 'type %s (code %d): %r degC -> %r uV, expected 1000 x E(T) = %r uV' % (
                t, NI_CODES[t], float(inp[i]), got[i], want[i]))
    else:
        # float32 microvolts carry a quantisation error of up to 2^-24 relative: convert it to degC with the local slope
        slack = INV_ERR[t] + 1e-6
        if case['f32']:
            slope = np.gradient(ref_emf(t, np.clip(np.stack([want - 0.5, want + 0.5]), *type_range(t))), axis=0)[0]
            slack = slack + np.abs(uv) * 2.0 ** -23 / (1000.0 * np.maximum(np.abs(slope), 1e-4)) + 1e-3
        bad = np.nonzero(~(np.abs(got - want) <= slack))[0]
        if len(bad):
            i = int(bad[0])
            rec.violation('scaling:uV_to_degC', 'type %s (code %d): %r uV (true %r degC) -> %r degC' % (
                t, NI_CODES[t], float(inp[i]), want[i], got[i]))


@st.composite
def mixed_case(draw):
    """an array of valid samples with foreign ones (NaN, +-inf, far outside the range) mixed in at drawn positions"""
    t = draw(st.sampled_from(list(TYPES)))
    lo, hi = type_range(t)
    n = draw(st.integers(1, 12))
    valid = [draw(st.floats(min_value=lo, max_value=hi, allow_nan=False)) for _ in range(n)]
    foreign = draw(st.lists(st.tuples(st.integers(0, n), st.sampled_from(['nan', 'inf', '-inf', 'above', 'below'])), max_size=3))
    return {'type': t, 'valid': valid, 'foreign': [list(f) for f in foreign], 'direction': draw(st.integers(0, 1)),
            'via_scaling': draw(st.booleans())}


def check_mixed(case, rec):
    """conversions are elementwise: what a valid sample converts to does not depend on its neighbours in the array"""
    from nptdms import scaling
    t = case['type']
    lo, hi = type_range(t)
    T = np.array(case['valid'], dtype=np.float64)
    if case['direction'] == 0:
        ilo, ihi = INV_RANGE[t]
        T = np.clip(T, ilo, ihi)
        x = ref_emf(t, T)              # mV
    else:
        x = T.copy()
    special = {'nan': np.nan, 'inf': np.inf, '-inf': -np.inf,
               'above': (1e6 if case['direction'] else 1e5), 'below': (-1e6 if case['direction'] else -1e5)}
    vals = list(x)
    marks = [True] * len(vals)
    for (pos, kind) in case['foreign']:
        pos = min(pos, len(vals))
        vals.insert(pos, special[kind])
        marks.insert(pos, False)
    arr = np.array(vals, dtype=np.float64)
    marks = np.array(marks)
    rec.nontrivial(not marks.all())
    rec.label('type=' + t, 'direction=%d' % case['direction'], 'with_foreign_samples' if not marks.all() else 'valid_only',
              *('foreign=' + k for (_p, k) in case['foreign']))
    try:
        with np.errstate(all='ignore'):
            other = arr[::-1].copy()
            if case['via_scaling']:
                factor = 1000.0
                sc = scaling.ThermocoupleScaling(NI_CODES[t], case['direction'], 0xFFFFFFFF)
                whole = np.asarray(sc.scale(arr * factor if case['direction'] == 0 else arr.copy()), dtype=np.float64)
                snap = whole.tobytes()
                # a result already handed out must survive the conversion of another, equally long array
                sc.scale(other * factor if case['direction'] == 0 else other)
                mutated = whole.tobytes() != snap
                alone = np.array([np.asarray(sc.scale(np.array([v * factor if case['direction'] == 0 else v])))[0]
                                  for v in arr[marks]], dtype=np.float64)
            else:
                fn = tc(t).mv_to_celsius if case['direction'] == 0 else tc(t).celsius_to_mv
                whole = np.asarray(fn(arr.copy()), dtype=np.float64)
                snap = whole.tobytes()
                fn(other)
                mutated = whole.tobytes() != snap
                alone = np.array([np.asarray(fn(np.array([v])))[0] for v in arr[marks]], dtype=np.float64)
    except Exception as e:      # noqa
        rec.violation('elementwise:raised', 'type %s direction %d on %r: %s' % (t, case['direction'], arr, describe_exc(e)),
                      key=exc_key(e))
        return
    if mutated:
        rec.violation('result_mutated', 'type %s direction %d: the array returned for %r changed when another array of the same '
                      'length was converted' % (t, case['direction'], arr))
        return
    if len(whole) != len(arr):
        rec.violation('elementwise:length', '%d samples in, %d out' % (len(arr), len(whole)))
        return
    got = whole[marks]
    bad = np.nonzero(~(np.abs(got - alone) <= 1e-9 * np.maximum(np.abs(alone), 1.0)))[0]
    if len(bad):
        i = int(bad[0])
        rec.violation('elementwise:' + ('inverse' if case['direction'] == 0 else 'forward'),
                      'type %s: sample %r converts to %r inside the array %r but to %r on its own' % (
                          t, arr[marks][i], got[i], arr, alone[i]))
        return
    # and the valid samples are right in absolute terms too
    if case['direction'] == 1:
        want = ref_emf(t, T) * (1000.0 if case['via_scaling'] else 1.0)
        if np.any(np.abs(got - want) > 1e-6 + 1e-12 * np.abs(want)):
            rec.violation('forward:' + t, 'type %s inside a mixed array: %r, reference %r' % (t, got, want))
    else:
        if np.any(~(np.abs(got - T) <= INV_ERR[t] + 1e-6)):
            rec.violation('inverse:' + t, 'type %s inside a mixed array: %r, true temperatures %r' % (t, got, T))


def check_long(case, rec):
    """ThermocoupleScaling over long arrays whose lengths sit on and next to powers of two (blocked evaluation)"""
    from nptdms import scaling
    t, d, n = case['type'], case['direction'], case['length']
    rec.nontrivial(True)
    rec.label('type=' + t, 'direction=%d' % d, 'length=%d' % n)
    lo, hi = type_range(t) if d == 1 else INV_RANGE[t]
    T = lo + (hi - lo) * ((np.arange(n, dtype=np.float64) * 0.6180339887498949) % 1.0)     # low-discrepancy cover of the range
    inp = T if d == 1 else 1000.0 * ref_emf(t, T)
    try:
        got = np.asarray(scaling.ThermocoupleScaling(NI_CODES[t], d, 0xFFFFFFFF).scale(inp.copy()), dtype=np.float64)
    except Exception as e:      # noqa
        rec.violation('scaling:raised', describe_exc(e), key=exc_key(e))
        return
    if len(got) != n:
        rec.violation('scaling:length', '%d samples in, %d out' % (n, len(got)))
        return
    if d == 1:
        want = 1000.0 * ref_emf(t, T)
        bad = np.nonzero(~(np.abs(got - want) <= 1e-6 + 1e-12 * np.abs(want)))[0]
    else:
        want = T
        bad = np.nonzero(~(np.abs(got - want) <= INV_ERR[t] + 1e-6))[0]
    if len(bad):
        i = int(bad[0])
        rec.violation('scaling:long_array', 'type %s direction %d, %d samples: sample %d (%r) converts to %r, expected %r '
                      '(%d samples wrong, the last wrong one is %d)' % (t, d, n, i, inp[i], got[i], want[i], len(bad), int(bad[-1])))


PROFILE_BINS = 400
PROFILE_GRID = 400000
_PROFILE = None


def inverse_profile(t):
    """largest inverse error per voltage bin (PROFILE_BINS equal bins over the inverse function's voltage range)"""
    lo, hi = INV_RANGE[t]
    T = np.linspace(lo, hi, PROFILE_GRID)
    E = ref_emf(t, T)
    err = np.abs(np.asarray(tc(t).mv_to_celsius(E.copy()), dtype=np.float64) - T)
    e_lo, e_hi = float(E.min()), float(E.max())
    idx = np.minimum(((E - e_lo) / (e_hi - e_lo) * PROFILE_BINS).astype(np.int64), PROFILE_BINS - 1)
    prof = np.zeros(PROFILE_BINS)
    np.maximum.at(prof, idx, np.where(np.isnan(err), np.inf, err))
    return prof


def check_profile(case, rec):
    """regression oracle: the error of the inverse function, bin by bin, against the frozen profile of the pinned tree"""
    global _PROFILE
    t = case['type']
    rec.nontrivial(True)
    rec.label('type=' + t, 'inverse_error_profile')
    if _PROFILE is None:
        _PROFILE = json.load(open(os.path.join(VERIF_DIR, 'vf', 'data', 'thermocouple_inverse_profile.json')))
    frozen = np.array(_PROFILE['types'][t])
    try:
        now = inverse_profile(t)
    except Exception as e:      # noqa
        rec.violation('inverse:raised', describe_exc(e), key=exc_key(e))
        return
    bad = np.nonzero(~(now <= 1.5 * frozen + 2e-4))[0]
    rec.maxstat('max_profile_ratio_' + t, float(np.max(now / np.maximum(frozen, 1e-6))))
    if len(bad):
        i = int(bad[np.argmax(now[bad] - frozen[bad])])
        lo, hi = INV_RANGE[t]
        E = ref_emf(t, np.array([lo, hi]))
        v0 = E.min() + (E.max() - E.min()) * i / PROFILE_BINS
        rec.violation('inverse_profile:' + t, 'type %s: in the voltage bin starting at %.4f mV the inverse error is %.5f degC, the '
                      'reference profile of this function has %.5f degC there (%d of %d bins worse than 1.5 x + 0.0002)' % (
                          t, v0, now[i], frozen[i], len(bad), PROFILE_BINS))


def check(case, rec):
    if case.get('profile'):
        return check_profile(case, rec)
    if 'length' in case:
        return check_long(case, rec)
    if 'valid' in case:
        return check_mixed(case, rec)
    if 'n' in case:
        return check_grid(case, rec)
    if 'points' in case:
        return check_scaling(case, rec)
    return check_boundaries(case, rec)


def _enum(items):
    def fn(shard, nshards):
        for i, it in enumerate(items):
            if i % nshards == shard:
                yield it
    return fn


def jobs(tier):
    n = 20000 if tier == 'quick' else 200000
    grids = [{'type': t, 'n': n + k} for t in TYPES for k in (0, 1)]
    bnds = [{'type': t, 'boundaries': True} for t in TYPES]
    return [Job('dense_grids', 'enum', _enum(grids), check=check_grid,
                note='%d-point uniform grid per type, forward and inverse, one array call' % n),
            Job('piece_boundaries', 'enum', _enum(bnds), exhaustive=True, check=check_boundaries,
                note='every piece boundary and range end with +-1, +-2 ulp neighbours, scalar and array'),
            Job('scaling_points', 'hyp', point_case, n=6000 if tier == 'quick' else 100000, check=check_scaling),
            Job('inverse_error_profile', 'enum', _enum([{'type': t, 'profile': True} for t in TYPES]), exhaustive=True,
                check=check_profile, note='error of the inverse function per voltage bin (400 bins) against a frozen profile'),
            Job('long_arrays_through_scaling', 'enum',
                _enum([{'type': t, 'direction': d, 'length': n} for t in TYPES for d in (0, 1)
                       for n in ((1023, 1024, 1025, 4096, 4097, 32768, 32769, 65535, 65536, 65537, 131072, 131073) if tier == 'quick'
                                 else tuple(2 ** k + e for k in range(8, 19) for e in (-1, 0, 1)))]),
                exhaustive=True, check=check_long, note='8 types x 2 directions x lengths on and next to powers of two'),
            Job('arrays_with_foreign_samples', 'hyp', mixed_case, n=4000 if tier == 'quick' else 80000, check=check_mixed)]
