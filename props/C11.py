"""C11 - DAQmx raw data is decoded at the declared buffer, stride, offset and type."""
import io
import tempfile

import numpy as np
from hypothesis import strategies as st

from vf.harness import Job, describe_exc, exc_key
from vf.daqmx import daqmx_file, expected_daqmx, scaler_chunk_values, truncated_expectation, seg_entries
from vf.encode import encode_file
from vf.observe import compare_values, le_bytes
from vf.model import split_path, tsize
from props.C04 import slice_vals

ID = 'C11'
LEVEL = 'exploration'
RULE = ("Hypothesis draws DAQmx files: 1-3 segments, 1-3 acquisition buffers of width 1-16 bytes and 1-5 rows (0 rows for "
        "unused buffers), 1-4 channels with 1-3 format-changing scalers (10 numeric types, any non-overflowing byte offset, "
        "overlaps and padding allowed) or digital-line scalers (u8, any bit of the row), raw (DaqMxRawData) or typed "
        "single-scaler channels, 1-3 chunks, both byte orders, random buffer bytes. Oracle: the byte-addressing model "
        "(buffer, row*width+offset, size, byte order; bit for digital lines) against eager raw_scaler_data / raw_data / "
        "read_data(scaled=False) / [:] (also with memmap_dir set), ALL lazy windows of channels with len <= 8, channel and file chunk streams; and, for "
        "EVERY cut inside the last chunk, the truncated file must yield only complete rows of the cut buffer, nothing from "
        "later buffers, identically in lazy and eager mode. Non-trivial: (>=2 channels or >=2 buffers or >=2 chunks) and a "
        "scaler with non-zero offset."
        ' Segments with metadata but without a new object list re-declare channels inside the same buffer geometry; '
        'the chunk streams of all channels are also advanced in lock step with window reads of other channels in '
        'between.'
        ' Non-final DAQmx segments may end in an incomplete chunk (row model); raw_data of single-scaler raw channels '
        'is checked.'
        ' Digital lines of signed 8-bit ports and of 16 / 32-bit ports (word aligned to its size, lines 0-7) are '
        'generated.')
ASSUMPTIONS = [
    "independent encoder's DAQmx index layout (scaler records of 20 bytes / 17 bytes for digital lines, width vector)",
    "channels whose scalers sit in buffers of different lengths, timestamp scalers and multi-byte digital-line types are "
    "not generated (ambiguous in the format)",
    "truncation expectations only for channels whose scalers share one buffer",
]


def _nontrivial(fs):
    for seg in fs['segments']:
        many = len(seg_entries(seg)) >= 2 or len(seg['widths']) >= 2 or seg['nchunks'] >= 2
        off = any(s['off'] != 0 for e in seg_entries(seg) for s in e['scalers'])
        if many and off:
            return True
    return False


def _cmp(rec, clause, t, want, got, where):
    for m in compare_values(t, want, got, where):
        rec.violation(clause, m)
        return False
    return True


def check_reads(rec, tf, exd, mode, lens=None, vals=None):
    """compare all read paths of an open/read TdmsFile with expectations. lens/vals override for truncated files."""
    for p, eo in exd.items():
        g, c = split_path(p)
        try:
            ch = tf[g][c]
        except KeyError:
            rec.violation('objects', '%s missing' % p)
            continue
        n = eo['len'] if lens is None else lens[p]
        sc = eo['scalers'] if vals is None else vals[p]
        if len(ch) != n:
            rec.violation('length:' + mode, 'len(%s)=%d expected %d' % (p, len(ch), n))
            continue
        ids = sorted(sc)
        last = ids[-1]
        if eo['chan_type'] == 'raw':
            if mode.startswith('eager'):
                ok, rsd = rec.guard('eager:raw_scaler_data', lambda: ch.raw_scaler_data)
                if ok:
                    if sorted(rsd.keys()) != ids:
                        rec.violation('scaler_ids', '%s raw_scaler_data ids %r expected %r' % (p, sorted(rsd.keys()), ids))
                    else:
                        for i in ids:
                            _cmp(rec, 'values:eager:raw_scaler_data', sc[i][0], sc[i][1], rsd[i], '%s scaler %d' % (p, i))
                if len(ids) == 1:
                    # a raw DAQmx channel with a single scaler: raw_data is that scaler's data
                    ok, d = rec.guard('eager:raw_data', lambda: ch.raw_data)
                    if ok:
                        _cmp(rec, 'values:eager:raw_data', sc[last][0], sc[last][1], d, '%s raw_data (single scaler)' % p)
            ok, d = rec.guard(mode + ':read_data(scaled=False)', lambda: ch.read_data(scaled=False))
            if ok:
                if not isinstance(d, dict) or sorted(d.keys()) != ids:
                    rec.violation('scaler_ids', '%s read_data(scaled=False) gives %r' % (p, type(d)))
                else:
                    for i in ids:
                        _cmp(rec, 'values:%s:read_data' % mode, sc[i][0], sc[i][1], d[i], '%s scaler %d' % (p, i))
        else:
            if mode.startswith('eager'):
                ok, d = rec.guard('eager:raw_data', lambda: ch.raw_data)
                if ok:
                    _cmp(rec, 'values:eager:raw_data', sc[last][0], sc[last][1], d, '%s raw_data' % p)
            ok, d = rec.guard(mode + ':read_data(scaled=False)', lambda: ch.read_data(scaled=False))
            if ok:
                _cmp(rec, 'values:%s:read_data' % mode, sc[last][0], sc[last][1], d, '%s read_data(scaled=False)' % p)
        ok, d = rec.guard(mode + ':[:]', lambda: ch[:])
        if ok:
            _cmp(rec, 'values:%s:[:]' % mode, sc[last][0], sc[last][1], d, '%s[:]' % p)
        if mode.startswith('lazy'):
            # all windows for small channels
            if n <= 8:
                for o in range(0, n + 2):
                    for l in [None] + list(range(0, n + 2)):
                        ok, d = rec.guard('lazy:window', lambda: ch.read_data(o, l, scaled=False))
                        if not ok:
                            break
                        sl = slice(o, None if l is None else o + l)
                        if eo['chan_type'] == 'raw':
                            good = isinstance(d, dict) and all(
                                not compare_values(sc[i][0], slice_vals(sc[i][0], sc[i][1], sl), d.get(i, []), '')
                                for i in ids)
                        else:
                            good = not compare_values(sc[last][0], slice_vals(sc[last][0], sc[last][1], sl), d, '')
                        if not good:
                            rec.violation('values:lazy:window', '%s.read_data(%d,%r,scaled=False) differs from the slice '
                                          'of the full data (len %d)' % (p, o, l, n))
                            break
                    else:
                        continue
                    break
            ok, parts = rec.guard('lazy:channel_chunks', lambda: [x[:] for x in ch.data_chunks()])
            if ok:
                cat = b''.join(le_bytes(x) for x in parts if len(x))
                if cat != sc[last][1]:
                    rec.violation('values:lazy:channel_chunks', '%s chunk stream differs from expected data' % p)
    if mode.startswith('lazy') and len(exd) >= 1:
        # chunk streams of all channels advanced in lock step, with a window read of another channel between two chunks
        def lockstep():
            paths = list(exd)
            gens = {p: tf[split_path(p)[0]][split_path(p)[1]].data_chunks() for p in paths}
            acc = {p: [] for p in paths}
            live = list(paths)
            turn = 0
            while live:
                for p in list(live):
                    try:
                        chunk = next(gens[p])
                    except StopIteration:
                        live.remove(p)
                        continue
                    x = chunk[:]
                    if len(x):
                        acc[p].append(le_bytes(x))
                    q = paths[turn % len(paths)]
                    turn += 1
                    gq, cq = split_path(q)
                    if len(tf[gq][cq]):
                        tf[gq][cq].read_data(len(tf[gq][cq]) - 1, 1, scaled=False)
            return acc
        ok, acc = rec.guard('lazy:lockstep_chunks', lockstep)
        if ok:
            for p, eo in exd.items():
                sc = eo['scalers'] if vals is None else vals[p]
                last = sorted(sc)[-1]
                if b''.join(acc[p]) != sc[last][1]:
                    rec.violation('values:lazy:lockstep_chunks', '%s: chunk stream advanced in turn with the other channels\' '
                                  'streams (and window reads in between) differs from expected data' % p)
                    break
    if mode.startswith('lazy'):
        def file_chunks():
            acc = {p: [] for p in exd}
            for chunk in tf.data_chunks():
                for p in exd:
                    g, c = split_path(p)
                    x = chunk[g][c][:]
                    if len(x):
                        acc[p].append(le_bytes(x))
            return acc
        ok, acc = rec.guard('lazy:file_chunks', file_chunks)
        if ok:
            for p, eo in exd.items():
                sc = eo['scalers'] if vals is None else vals[p]
                last = sorted(sc)[-1]
                if b''.join(acc[p]) != sc[last][1]:
                    rec.violation('values:lazy:file_chunks', '%s file chunk stream differs from expected data' % p)


def check(case, rec):
    from nptdms import TdmsFile
    fs = case['fs']
    data, _i, lay = encode_file(fs)
    exd = expected_daqmx(fs)
    rec.nontrivial(_nontrivial(fs))
    for seg in fs['segments']:
        rec.label('buffers=%d' % len(seg['widths']), 'chunks=%d' % seg['nchunks'], 'be' if seg['be'] else 'le')
        if not seg.get('meta', True):
            rec.label('metadata_less_continuation')
        if seg.get('toc_extra'):
            rec.label('interleaved_flag_set')
        if any(e.get('hdr') != 'daqmx' for e in seg['entries']):
            rec.label('relisted_without_data')
        if seg.get('trim_raw'):
            rec.label('short_final_chunk_in_middle_segment')
        if seg.get('meta', True) and not seg.get('newlist', True):
            rec.label('redeclared_without_new_object_list')
        for e in seg_entries(seg):
            rec.label('kind=' + e['kind'], 'chan=' + ('raw' if e['chan_type'] == 'raw' else 'typed'),
                      'scalers=%d' % len(e['scalers']))
    ok, tf = rec.guard('eager:read', lambda: TdmsFile.read(io.BytesIO(data)))
    if ok:
        check_reads(rec, tf, exd, 'eager')
    ok, tf = rec.guard('lazy:open', lambda: TdmsFile.open(io.BytesIO(data)))
    if ok:
        try:
            check_reads(rec, tf, exd, 'lazy')
        finally:
            tf.close()
    # ---- the same reads with the arrays backed by memory-mapped temporary files (memmap_dir)
    with tempfile.TemporaryDirectory(prefix='c11mm_') as mm:
        ok, tf = rec.guard('eager_memmap:read', lambda: TdmsFile.read(io.BytesIO(data), memmap_dir=mm))
        if ok:
            rec.label('memmap_dir')
            check_reads(rec, tf, exd, 'eager_memmap')
            del tf
        ok, tf = rec.guard('lazy_memmap:open', lambda: TdmsFile.open(io.BytesIO(data), memmap_dir=mm))
        if ok:
            try:
                check_reads(rec, tf, exd, 'lazy_memmap')
            finally:
                tf.close()
            del tf
    if not case.get('cuts'):
        return
    # ---- truncation of the final chunk at every byte
    last = fs['segments'][-1]
    L = lay[-1]
    chunk_size = L['layout']['chunk_size']
    if chunk_size == 0:
        return
    final_start = L['data_pos'] + (last['nchunks'] - 1) * chunk_size
    for cut in range(final_start + 1, L['end']):
        rows = truncated_expectation(last, cut - final_start)
        lens = {}
        vals = {}
        skip = set()
        for p, eo in exd.items():
            ent = next((e for e in seg_entries(last) if e['path'] == p), None)
            if ent is None:
                lens[p] = eo['len']
                vals[p] = eo['scalers']
                continue
            bufs = set(s['buf'] for s in ent['scalers'])
            if len(bufs) != 1:
                skip.add(p)
                continue
            r = rows[list(bufs)[0]]
            lens[p] = eo['len'] - ent['n'] + r
            vals[p] = {}
            for s in ent['scalers']:
                t, full = eo['scalers'][s['id']]
                keep = len(full) - (ent['n'] - r) * tsize(t)
                vals[p][s['id']] = (t, full[:keep])
        sub = {p: eo for p, eo in exd.items() if p not in skip}
        if not sub:
            continue
        rec.stat('cuts')
        blob = data[:cut]
        ok, tf = rec.guard('truncated:eager:read', lambda: TdmsFile.read(io.BytesIO(blob)))
        if ok:
            check_reads(rec, tf, sub, 'eager', lens, vals)
        ok, tf = rec.guard('truncated:lazy:open', lambda: TdmsFile.open(io.BytesIO(blob)))
        if ok:
            try:
                check_reads(rec, tf, sub, 'lazy', lens, vals)
            finally:
                tf.close()


@st.composite
def cases(draw, **kw):
    fs = draw(daqmx_file(short_mid=True, **kw))
    return {'fs': fs, 'cuts': draw(st.integers(0, 2)) == 0}


def jobs(tier):
    if tier == 'quick':
        return [Job('daqmx_files', 'hyp', lambda: cases(), n=1800)]
    return [Job('daqmx_files', 'hyp', lambda: cases(), n=45000),
            Job('wider', 'hyp', lambda: cases(max_channels=6, max_len=12, max_chunks=4, max_width=32), n=6000)]
