"""C13 - Scaled data is the dataflow evaluation of the NI_Scale definitions."""
import io
import struct

import numpy as np
from hypothesis import strategies as st

from vf.harness import Job, describe_exc, exc_key
from vf import scales as SC
from vf.encode import encode_file
from vf.model import make_path, np_dtype, tsize, INT_RANGES
from vf.observe import le_bytes

ID = 'C13'
LEVEL = 'exploration'
RAW_TYPES = ['i8', 'i16', 'i32', 'i64', 'u8', 'u16', 'u32', 'u64', 'f32', 'f64']
RULE = ("Hypothesis draws scale graphs of 1-5 scales over {Linear, Polynomial (0-5 coefficients), Table (2-5 strictly "
        "monotone points, either direction), Add, Subtract} with arbitrary input-source wiring (raw, any lower index, several "
        "readers of raw; default input source omitted or explicit), double coefficients, raw data of all 10 numeric types "
        "(2 segments, 1-2 chunks), the properties placed on channel / group / root with the other levels empty or carrying a "
        "DIFFERENT graph (precedence), with and without NI_Number_Of_Scales, NI_Scaling_Status 'scaled' (alone: unscaled "
        "data; with a graph on group/root: that graph applies). Oracle: an independent recursive interpreter (Horner, clamped "
        "piecewise-linear table from scaled to pre-scaled values, Subtract = right - left) with a per-element error bound from "
        "the magnitude of intermediate terms; exhaustive windows scaled(window) == window(scaled) bit for bit; lazy == eager "
        "bit for bit; raw bytes identical before and after every scaled read. Non-trivial: graph depth >= 2 or a binary node, "
        "or properties not on the channel."
        ' Windows of equal length follow one another and every array returned is re-checked at the end: later reads '
        'must not change it.'
        ' A further job evaluates graphs over long channels (2^10 .. 2^17, +-1 values).'
        ' DAQmx channels combined by scales are also read through every window.'
        ' Group and channel names with quotes and slashes are used in half of the cases.')
ASSUMPTIONS = [
    "defining formulas evaluated in float64; Table maps scaled values to pre-scaled values and Subtract is right - left, as "
    "the module documents them",
    "integer-with-integer Add/Subtract (wrap-around) is not generated: at least one operand is floating",
    "tolerance: 64 ulp of the magnitude of the intermediate terms (independent evaluation order) ",
]


def raw_values(draw, t, n):
    if t in INT_RANGES:
        lo, hi = INT_RANGES[t]
        lo, hi = max(lo, -10 ** 6), min(hi, 10 ** 6)
        vals = [draw(st.one_of(st.sampled_from([lo, hi, 0, 1]), st.integers(lo, hi))) for _ in range(n)]
        return np.array(vals, dtype=np_dtype(t)).tobytes()
    w = 32 if t == 'f32' else 64
    vals = [draw(st.one_of(st.sampled_from([0.0, 1.0, -1.0, 0.5, 1e4, -1e4]),
                           st.floats(min_value=-1e5, max_value=1e5, allow_nan=False, width=w))) for _ in range(n)]
    return np.array(vals, dtype=np_dtype(t)).tobytes()


NAME_PAIRS = [("it's", 'a/b'), ('x/y', "c'"), ('', 'rate m/'), ('g', "x/'y"), ("'", '/'), ('Ω', 'volts/amps'), ('a b', '')]


@st.composite
def cases(draw, noop=False, names=False):
    t = draw(st.sampled_from(RAW_TYPES))
    graph = draw(SC.scale_graph(t, noop=noop, max_scales=5 if draw(st.integers(0, 7)) else 13))
    level = draw(st.sampled_from(['channel', 'channel', 'group', 'root']))
    other = None
    if draw(st.booleans()):
        other = draw(SC.scale_graph(t, max_scales=2, noop=noop))
    status = draw(st.sampled_from([None, None, None, 'unscaled', 'scaled']))
    segs = []
    nseg = draw(st.integers(1, 2))
    for _ in range(nseg):
        n = draw(st.integers(0, 4))
        nchunks = draw(st.integers(1, 2)) if n else 0
        segs.append([raw_values(draw, t, n) for _k in range(nchunks)])
    return {'type': t, 'graph': graph, 'level': level, 'other': other, 'status': status,
            'with_count': draw(st.booleans()), 'other_count': draw(st.booleans()), 'segs': segs,
            'order': draw(st.sampled_from(['parents_first', 'parents_first', 'channel_first', 'parents_in_last_segment'])),
            'be': draw(st.integers(0, 3)) == 0,
            # group / channel names with path syntax in them (only in C13's own jobs; other checks address the channel as g/c)
            **({'names': list(draw(st.sampled_from(NAME_PAIRS)))} if names and draw(st.booleans()) else {})}


LEVELS = ['channel', 'group', 'root']


def build_file(case):
    """returns (file spec, expected graph or None)"""
    t = case['type']
    gname, cname = case.get('names') or ('g', 'c')
    p = make_path(gname, cname)
    lvl = case['level']
    props = {'channel': [], 'group': [], 'root': []}
    status = case['status']
    props[lvl] = SC.graph_props(case['graph'], case['with_count'], None if status != 'unscaled' else 'unscaled')
    expected = case['graph']
    if status == 'scaled':
        # the channel says its data is already scaled: its own scales (if any) are not applied
        if lvl != 'channel':
            props['channel'] = [['NI_Scaling_Status', 'str', 'scaled']]
            # a status on the channel alone does not hide scaling defined on its group / root
        else:
            props['channel'] = SC.graph_props(case['graph'], case['with_count'], 'scaled')
            expected = None
    if case['other'] is not None:
        # a different graph at every lower-priority level: must be ignored (unless the channel level is 'scaled')
        lower = LEVELS[LEVELS.index(lvl) + 1:]
        for k, lv in enumerate(lower):
            if k == 0:
                props[lv] = SC.graph_props(case['other'], case['other_count'])
                if status == 'scaled' and lvl == 'channel':
                    expected = case['other']
    segs = []
    for si, chunks in enumerate(case['segs']):
        n = len(chunks[0]) // tsize(t) if chunks else 0
        entries = [{'path': p, 'hdr': 'full', 'type': t, 'n': n, 'props': props['channel'] if si == 0 else []}]
        order = case.get('order', 'parents_first')
        g_ent = {'path': make_path(gname), 'hdr': 'nodata', 'props': props['group']}
        r_ent = {'path': '/', 'hdr': 'nodata', 'props': props['root']}
        last = si == len(case['segs']) - 1
        if order == 'parents_first' and si == 0:
            entries = [r_ent, g_ent] + entries
        elif order == 'channel_first' and si == 0:
            entries = entries + [g_ent, r_ent]          # the channel is met before its group and the root
        elif order == 'parents_in_last_segment' and last:
            entries = entries + [g_ent, r_ent]          # group / root objects (and their scaling) only appear later
        segs.append({'be': case['be'], 'interleaved': False, 'entries': entries, 'active': [[p, t, n]],
                     'nchunks': len(chunks), 'data': {p: list(chunks)}})
    return {'segments': segs}, expected


def _depth(graph):
    def d(ref):
        if ref is None:
            return 0
        s = graph[ref]
        if s['type'] in ('Add', 'Subtract'):
            return 1 + max(d(s['left']), d(s['right']))
        return 1 + d(s['src'])
    return d(len(graph) - 1)


def check(case, rec):
    from nptdms import TdmsFile
    if case.get('daqmx'):
        return check_daqmx_graph(case, rec)
    if 'sensor' in case:
        return check_sensor(case, rec)
    if 'long_n' in case:
        # a long channel given by a formula (lengths on and next to powers of two: blocked evaluation paths)
        n = case['long_n']
        vals = ((np.arange(n, dtype=np.int64) * 7919) % 2001 - 1000)
        arr = (vals * 0.125).astype(np_dtype(case['type'])) if case['type'] in ('f32', 'f64') else \
            (vals % 120).astype(np_dtype(case['type']))
        case = dict(case, segs=[[arr.tobytes()]])
        rec.label('long_channel', 'length=%d' % n)
    fs, graph = build_file(case)
    t = case['type']
    raw = np.frombuffer(b''.join(b''.join(c) for c in case['segs']), dtype=np_dtype(t))
    data, _i, _l = encode_file(fs)
    rec.label('raw=' + t, 'level=' + case['level'], 'status=%s' % case['status'])
    if graph is not None:
        rec.label(*('scale=' + s['type'] for s in graph))
        if any(s.get('prop_order') == 'rev' for s in graph):
            rec.label('scale_properties_listed_in_reverse')
        rec.nontrivial(_depth(graph) >= 2 or any(s['type'] in ('Add', 'Subtract') for s in graph) or case['level'] != 'channel')
        want, mag = SC.eval_graph(graph, raw)
    else:
        rec.nontrivial(True)
        want, mag = raw, None
    ok, tf_e = rec.guard('read', lambda: TdmsFile.read(io.BytesIO(data)))
    if not ok:
        return
    ok, tf_l = rec.guard('open', lambda: TdmsFile.open(io.BytesIO(data)))
    if not ok:
        return
    try:
        gname, cname = case.get('names') or ('g', 'c')
        if case.get('names'):
            rec.label('names_with_quotes_or_slashes')
        che, chl = tf_e[gname][cname], tf_l[gname][cname]
        raw_before = le_bytes(che.raw_data)
        ok, full_e = rec.guard('scaled_read:eager', lambda: che[:])
        ok2, full_l = rec.guard('scaled_read:lazy', lambda: chl[:])
        if not (ok and ok2):
            return
        full_e = np.asarray(full_e)
        full_l = np.asarray(full_l)
        held = []       # (request, array as returned, its bytes when returned): later reads must not change earlier results

        def hold(request, arr):
            if isinstance(arr, np.ndarray):
                held.append((request, arr, arr.tobytes()))
        hold('eager [:]', full_e)
        hold('lazy [:]', full_l)
        if len(full_e) != len(raw) or len(full_l) != len(raw):
            rec.violation('length', 'scaled data has %d / %d values, raw has %d' % (len(full_e), len(full_l), len(raw)))
            return
        # 1. value
        if graph is None:
            if le_bytes(full_e) != raw.tobytes():
                rec.violation('status_scaled', "NI_Scaling_Status='scaled' with no other scaling in scope: data %r differs "
                              "from the raw data %r" % (full_e[:4], raw[:4]))
        else:
            w = np.asarray(want, dtype=np.float64)
            g = full_e.astype(np.float64)
            with np.errstate(all='ignore'):
                tol = 64 * np.finfo(np.float64).eps * np.maximum(np.asarray(mag, dtype=np.float64), np.abs(w)) + 1e-300
                # overflowing polynomials: equal infinities / NaNs agree; no finite conditioning where the magnitude overflows
                same = (g == w) | (np.isnan(g) & np.isnan(w)) | (np.abs(g - w) <= tol) | ~np.isfinite(tol)
            bad = np.nonzero(~same)[0]
            if len(bad):
                i = int(bad[0])
                rec.violation('value', 'element %d: scaled %r, dataflow evaluation %r (raw %r, tolerance %.3g); graph %r' % (
                    i, g[i], w[i], raw[i], tol[i], graph))
        # 2. lazy == eager
        if le_bytes(full_l) != le_bytes(full_e) or full_l.dtype.newbyteorder('=') != full_e.dtype.newbyteorder('='):
            rec.violation('lazy_eq_eager', 'lazy %r (%s) vs eager %r (%s)' % (full_l[:4], full_l.dtype, full_e[:4], full_e.dtype))
        # 3. elementwise: all windows
        n = len(raw)
        if n <= 8:
            # equally long windows follow one another, so that a result buffer reused between calls would show
            for l in range(0, n + 1):
                for o in range(0, n - l + 1):
                    for mode, ch, full in (('lazy', chl, full_l), ('eager', che, full_e)):
                        ok, win = rec.guard('window:' + mode, lambda: ch.read_data(o, l))
                        if not ok:
                            return
                        hold('%s read_data(%d,%d)' % (mode, o, l), win)
                        if le_bytes(np.asarray(win)) != le_bytes(full[o:o + l]):
                            rec.violation('elementwise:' + mode, 'read_data(%d,%d) = %r but scaled[%d:%d] = %r' % (
                                o, l, np.asarray(win), o, o + l, full[o:o + l]))
                            return
        for i in range(min(n, 6)):
            ok, v = rec.guard('index:lazy', lambda: chl[i])
            if ok and le_bytes(np.asarray(v)) != le_bytes(full_l[i:i + 1]):
                rec.violation('elementwise:index', 'channel[%d] = %r but scaled[%d] = %r' % (i, v, i, full_l[i]))
        # 4. raw data untouched, repeated reads stable
        again = np.asarray(che.read_data())
        if le_bytes(again) != le_bytes(full_e):
            rec.violation('repeatable', 'second scaled read differs from the first: %r vs %r' % (again[:4], full_e[:4]))
        for name, fn in (('raw_data', lambda: che.raw_data), ('read_data(scaled=False)', lambda: che.read_data(scaled=False)),
                         ('lazy read_data(scaled=False)', lambda: chl.read_data(scaled=False))):
            ok, r = rec.guard('raw:' + name, fn)
            if ok and le_bytes(np.asarray(r)) != raw.tobytes():
                rec.violation('raw_modified', '%s after scaled reads is %r, the file holds %r' % (name, np.asarray(r)[:4], raw[:4]))
        if raw_before != raw.tobytes():
            rec.violation('raw_modified', 'raw_data differs from the file content before any scaled read')
        for (request, arr, snap) in held:
            if arr.tobytes() != snap:
                rec.violation('result_mutated', 'the array returned by %s was changed by later reads of the channel: it held %r, '
                              'now %r' % (request, np.frombuffer(snap, dtype=arr.dtype)[:4], arr[:4]))
                break
    finally:
        tf_l.close()


@st.composite
def daqmx_graph_cases(draw):
    """a raw DAQmx channel with k scalers; NI_Scale[k..] are structural scales whose inputs are scaler ids or lower scales"""
    from vf.daqmx import daqmx_file
    fs = draw(daqmx_file(max_segments=2, max_channels=1, max_buffers=2, max_len=4, max_chunks=2, carry=False))
    ent0 = fs['segments'][0]['entries'][0]
    k = len(ent0['scalers'])
    extra = draw(SC.scale_graph('f64', max_scales=3, types=('Linear', 'Polynomial', 'Table', 'Add', 'Subtract')))
    # re-wire: a reference to "raw" becomes a reference to a drawn scaler id, lower scale indexes shift by k
    def rw(ref):
        return draw(st.integers(0, k - 1)) if ref is None else ref + k
    graph = []
    for sc in extra:
        sc = dict(sc)
        if sc['type'] in ('Add', 'Subtract'):
            sc['left'], sc['right'] = rw(sc['left']), rw(sc['right'])
        else:
            sc['src'] = rw(sc['src'])
            sc['explicit_src'] = True
        graph.append(sc)
    return {'daqmx': True, 'fs': fs, 'k': k, 'graph': graph}


def check_daqmx_graph(case, rec):
    from nptdms import TdmsFile
    from vf.daqmx import expected_daqmx
    from vf.model import split_path
    fs = case['fs']
    k = case['k']
    graph = case['graph']
    # properties: the first k scales have no Scale_Type (they are the raw DAQmx scalers), the rest follow
    props = [['NI_Number_Of_Scales', 'u32', k + len(graph)]]
    full = [None] * k + graph
    for (name, pt, val) in SC.graph_props(full[k:], False):
        # shift the scale index in the property names by k
        idx = int(name[len('NI_Scale['):name.index(']')])
        props.append(['NI_Scale[%d]%s' % (idx + k, name[name.index(']') + 1:]), pt, val])
    segs = []
    path = fs['segments'][0]['entries'][0]['path']
    for si, seg in enumerate(fs['segments']):
        seg = dict(seg)
        ents = []
        for e in seg['entries']:
            e = dict(e)
            if e['path'] == path and e.get('hdr') == 'daqmx':
                e['chan_type'] = 'raw'
                e['props'] = props if si == 0 else []
            ents.append(e)
        seg['entries'] = ents
        segs.append(seg)
    fs2 = {'segments': segs}
    exd = expected_daqmx(fs2)
    if path not in exd:
        return
    data, _i, _l = encode_file(fs2)
    rec.nontrivial(True)
    rec.label('daqmx_scaler_inputs', *('scale=' + s['type'] for s in graph))
    scal = {sid: np.frombuffer(vals, dtype=np_dtype(t)) for sid, (t, vals) in exd[path]['scalers'].items()}

    # evaluate with the independent interpreter: scaler ids act as already-computed nodes
    def ev(ref):
        if ref < k:
            r = scal[ref]
            return r, np.abs(r.astype(np.float64))
        sub = graph[ref - k]
        t = sub['type']
        if t in ('Add', 'Subtract'):
            a, ma = ev(sub['left'])
            b, mb = ev(sub['right'])
            return ((a + b) if t == 'Add' else (b - a)), ma + mb
        x, mag = ev(sub['src'])
        one = dict(sub, src=None)
        v, m = SC.eval_graph([one], x)
        return v, m + mag * 0
    want, mag = ev(k + len(graph) - 1)
    g, c = split_path(path)
    for mode in ('eager', 'lazy'):
        opener = TdmsFile.read if mode == 'eager' else TdmsFile.open
        ok, tf = rec.guard('daqmx_graph:' + mode, lambda: opener(io.BytesIO(data)))
        if not ok:
            continue
        try:
            ok, got = rec.guard('daqmx_graph:' + mode, lambda: np.asarray(tf[g][c][:]))
            if not ok:
                continue
            w = np.asarray(want, dtype=np.float64)
            if len(got) != len(w):
                rec.violation('daqmx_graph:length', '%d scaled values, expected %d' % (len(got), len(w)))
                continue
            gf = got.astype(np.float64)
            with np.errstate(all='ignore'):
                tol = 64 * np.finfo(np.float64).eps * np.maximum(np.asarray(mag, dtype=np.float64), np.abs(w)) + 1e-300
                # random scaler bytes include inf / NaN / huge values: equal non-finite results agree, and where the
                # intermediate magnitude is not finite the formula has no finite conditioning to judge by
                same = (gf == w) | (np.isnan(gf) & np.isnan(w)) | (np.abs(gf - w) <= tol) | ~np.isfinite(tol)
            bad = np.nonzero(~same)[0]
            if len(bad):
                i = int(bad[0])
                rec.violation('daqmx_graph:value', '%s element %d: scaled %r, evaluation over the raw scalers %r; graph %r' % (
                    mode, i, got[i], w[i], graph))
                continue
            # elementwise: every window of the scaled DAQmx channel equals the window of the scaled data
            n = len(got)
            if n <= 10:
                ch = tf[g][c]
                done = False
                for o in range(0, n + 1):
                    for l in [None] + list(range(0, n - o + 1)):
                        ok, win = rec.guard('daqmx_graph:window:' + mode, lambda: np.asarray(ch.read_data(o, l)))
                        if not ok:
                            done = True
                            break
                        want_w = got[o:] if l is None else got[o:o + l]
                        if win.tobytes() != want_w.tobytes():
                            rec.violation('daqmx_graph:elementwise:' + mode, 'read_data(%d,%r) = %r but scaled[%d:...] = %r' % (
                                o, l, win, o, want_w))
                            done = True
                            break
                    if done:
                        break
        finally:
            tf.close()


def sensor_cases():
    from props.C14 import scale_variants
    sensors = [(n, g) for (n, g) in scale_variants() if g and g[0]['type'] in ('RTD', 'Thermistor', 'Strain', 'Thermocouple')]

    def fn(shard, nshards):
        i = 0
        for (name, graph) in sensors:
            for t in ('f64', 'f32', 'i16'):
                for n in (1, 4):
                    i += 1
                    if i % nshards == shard:
                        yield {'sensor': name, 'graph': graph, 'type': t, 'n': n}
    return fn


def check_sensor(case, rec):
    """sensor scalings: repeatable, lazy == eager, elementwise and raw data untouched (values are C17's business)"""
    from nptdms import TdmsFile
    t = case['type']
    n = case['n']
    raw = np.array([1.0 + 0.25 * i for i in range(n)], dtype=np_dtype(t))
    p = make_path('g', 'c')
    seg = {'be': False, 'interleaved': False,
           'entries': [{'path': p, 'hdr': 'full', 'type': t, 'n': n, 'props': SC.graph_props(case['graph'], True)}],
           'active': [[p, t, n]], 'nchunks': 2, 'data': {p: [raw.tobytes(), raw.tobytes()]}}
    data, _i, _l = encode_file({'segments': [seg]})
    rec.nontrivial(True)
    rec.label('sensor=' + case['sensor'], 'raw=' + t)
    want_raw = raw.tobytes() * 2
    try:
        tf_e = TdmsFile.read(io.BytesIO(data))
        tf_l = TdmsFile.open(io.BytesIO(data))
        che, chl = tf_e['g']['c'], tf_l['g']['c']
        first = np.asarray(che.read_data())
        again = np.asarray(che.read_data())
        cached = np.asarray(che[:])
        lazy = np.asarray(chl[:])
        win = np.asarray(chl.read_data(1, max(n - 1, 1)))
        raw_after = le_bytes(np.asarray(che.raw_data))
        lazy_raw = le_bytes(np.asarray(chl.read_data(scaled=False)))
        tf_l.close()
    except Exception as e:      # noqa
        rec.violation('sensor:raised', describe_exc(e), key=exc_key(e))
        return
    if raw_after != want_raw or lazy_raw != want_raw:
        rec.violation('raw_modified', '%s on %s raw data: raw data changed by a scaled read' % (case['sensor'], t))
    if first.tobytes() != again.tobytes() or first.tobytes() != cached.tobytes():
        rec.violation('repeatable', '%s on %s: repeated scaled reads differ: %r / %r / %r' % (
            case['sensor'], t, first[:3], again[:3], cached[:3]))
    if le_bytes(lazy) != le_bytes(first):
        rec.violation('lazy_eq_eager', '%s on %s: lazy %r, eager %r' % (case['sensor'], t, lazy[:3], first[:3]))
    if le_bytes(win) != le_bytes(first[1:1 + max(n - 1, 1)]):
        rec.violation('elementwise:lazy', '%s on %s: window differs from slice of the scaled data' % (case['sensor'], t))


@st.composite
def long_cases(draw):
    t = draw(st.sampled_from(['i16', 'f32', 'f64', 'u8']))
    n = 2 ** draw(st.integers(10, 17)) + draw(st.sampled_from([-1, 0, 1]))
    return {'type': t, 'graph': draw(SC.scale_graph(t, max_scales=3)), 'level': 'channel', 'other': None, 'status': None,
            'with_count': True, 'other_count': True, 'long_n': n, 'order': 'parents_first', 'be': draw(st.booleans())}


def jobs(tier):
    if tier == 'quick':
        return [Job('scale_graphs', 'hyp', lambda: cases(names=True), n=4000),
                Job('long_channels', 'hyp', long_cases, n=160,
                    note='channels of 2^10 .. 2^17 (+-1) values through graphs of 1-3 scales'),
                Job('daqmx_scaler_inputs', 'hyp', daqmx_graph_cases, n=800, check=check_daqmx_graph),
                Job('sensor_scalings_leave_raw_data_alone', 'enum', sensor_cases(), exhaustive=True, check=check_sensor,
                    note='12 sensor scalings x 3 raw types x 2 lengths: repeatable, lazy==eager, raw untouched')]
    return [Job('scale_graphs', 'hyp', lambda: cases(names=True), n=120000),
            Job('long_channels', 'hyp', long_cases, n=4000),
            Job('with_noop_scales', 'hyp', lambda: cases(noop=True), n=30000),
            Job('daqmx_scaler_inputs', 'hyp', daqmx_graph_cases, n=30000, check=check_daqmx_graph),
            Job('sensor_scalings_leave_raw_data_alone', 'enum', sensor_cases(), exhaustive=True, check=check_sensor,
                note='12 sensor scalings x 3 raw types x 2 lengths: repeatable, lazy==eager, raw untouched')]
