"""C10 - Defragmenting a file preserves its content."""
import io
import os

import numpy as np
from hypothesis import strategies as st

from vf.harness import Job, describe_exc, exc_key
from vf import strategies as S
from vf import plans as P
from vf.encode import encode_file
from vf.expect import expected_content
from vf.observe import compare_structure, compare_data
from vf.files import scratch_dir
from vf.parse import parse_file, decode_raw, StructuralError
from vf.model import split_path, NPTDMS_TYPE_NAME
from props.C02 import history

ID = 'C10'
LEVEL = 'exploration'
RULE = ("Hypothesis draws non-DAQmx source files biased to fragmentation (C01 generator with many short segments, C02 "
        "histories with inheritance plans; channels without data type, empty typed channels incl. empty string and timestamp "
        "channels, property-only objects, 13 property types, timestamps with full 64-bit fractions as data and properties; "
        "scaled channels from the C13 generator in a further job); TdmsWriter.defragment copies them to a path or a stream, "
        "with/without index file, version 4712/4713. Oracle: defragment must not raise; TdmsFile.read(copy, "
        "raw_timestamps=True) must show the model content of the source: same groups and channels, property names and "
        "values (raw timestamps as (seconds, fractions)), lengths, bit-identical raw values, data type whenever >=1 value; "
        "the copy passes the strict structural parse (and its index twin is faithful). Non-trivial: source with >=3 segments "
        "and a channel split over >=2 of them, or an empty / untyped channel."
        ' A further job defragments sources with long channels (16 KiB - 768 KiB, lengths on and next to powers of '
        'two); a copy written to a path with index_file=True is also read back by path (read and open) with the index '
        'defragment wrote.'
        ' Source lead-ins carry version numbers 4711 / 4712 / 4713 / 4714 / 0, the version argument may be omitted '
        '(documented default 4712), destinations may be pathlib.Path objects.'
        ' Long string channels (4095 .. 10000 values) are included.'
        ' Strings ending in NUL characters and multi-byte text occur in the sources (also in the long string channel, '
        '1023 .. 10000 values).')
ASSUMPTIONS = [
    "float-with-unit channels are compared as their float type (the writer API has no with-unit types)",
    "order of groups/channels in the copy is not asserted (the statement does not mention it)",
    "property TDMS type codes need not survive, values must",
]


def _nontrivial(fs, ex):
    segs = fs['segments']
    for p in ex.channel_paths():
        t = ex.objects[p]['type']
        if t is None or ex.length(p) == 0:
            return True
        if len(segs) >= 3 and len(set(r[0] for r in ex.chunk_table(p) if r[3] > 0)) >= 2:
            return True
    return False


def long_fs(case):
    """file spec with LONG channels given by a formula (the case itself stays small): case['chans'] = [[type, total, mult,
    add], ...], split over case['nseg'] segments at case['cuts'] (fractions of the total in 1/8)"""
    from vf.model import make_path, tsize
    segs = []
    nseg = case['nseg']
    bounds = {}
    for k, (t, total, mult, add) in enumerate(case['chans']):
        cuts = sorted(min(total, total * c // 8) for c in case['cuts'][:nseg - 1])
        bounds[k] = [0] + cuts + [total]
    for si in range(nseg):
        entries, active, data = [], [], {}
        for k, (t, total, mult, add) in enumerate(case['chans']):
            lo, hi = bounds[k][si], bounds[k][si + 1]
            n = hi - lo
            p = make_path('big', 'long%d' % k)
            vals = ((np.arange(lo, hi, dtype=np.int64) * mult + add) % 251).astype(np.uint8)
            blob = np.repeat(vals, tsize(t)).tobytes() if t != 'bool' else (vals % 2).astype(np.uint8).tobytes()
            if t in ('f32', 'f64', 'c64', 'c128'):
                # keep floats finite: build from small integers
                base = {'f32': '<f4', 'f64': '<f8', 'c64': '<c8', 'c128': '<c16'}[t]
                blob = (vals.astype(np.float64) * 0.25).astype(np.dtype(base)).tobytes()
            entries.append({'path': p, 'hdr': 'full', 'type': t, 'n': n})
            active.append([p, t, n])
            data[p] = [blob]
        if case.get('strings'):
            # a string channel of several thousand short values, split over the segments like the others
            total_s = case['strings']
            lo_s, hi_s = total_s * si // nseg, total_s * (si + 1) // nseg
            vals_s = ['s%d' % (i * 7 % 1000) + ('' if i % 5 else ' °C') + ('\x00' if i % 11 == 0 else '') for i in range(lo_s, hi_s)]
            p = make_path('big', 'text')
            entries.append({'path': p, 'hdr': 'full', 'type': 'str', 'n': len(vals_s),
                            'total': sum(4 + len(v.encode('utf-8')) for v in vals_s)})
            active.append([p, 'str', len(vals_s)])
            data[p] = [vals_s]
        p = make_path('big', 'tail')
        entries.append({'path': p, 'hdr': 'full', 'type': 'i16', 'n': 2})
        active.append([p, 'i16', 2])
        data[p] = [bytes([si, 0, 7, 0])]
        segs.append({'be': False, 'interleaved': False, 'entries': entries, 'active': active, 'nchunks': 1, 'data': data})
    return {'segments': segs}


@st.composite
def long_sources(draw):
    from vf.model import tsize
    chans = []
    for _k in range(draw(st.integers(1, 2))):
        t = draw(st.sampled_from(['i8', 'i16', 'i32', 'i64', 'u8', 'u16', 'u32', 'u64', 'f32', 'f64', 'bool', 'ts', 'c64', 'c128']))
        nbytes = draw(st.sampled_from([16384, 32768, 65536, 131072, 262144])) * draw(st.sampled_from([1, 1, 2, 3]))
        total = max(nbytes // tsize(t) + draw(st.sampled_from([-1, 0, 0, 0, 1])), 1)
        if draw(st.integers(0, 3)) == 0:
            total = draw(st.sampled_from([4096, 8192, 16384, 65536])) + draw(st.sampled_from([-1, 0, 0, 1]))   # counts of values
        chans.append([t, total, draw(st.integers(1, 250)), draw(st.integers(0, 250))])
    nseg = draw(st.integers(1, 3))
    return {'long': True, 'chans': chans, 'nseg': nseg, 'cuts': draw(st.lists(st.integers(0, 8), min_size=2, max_size=2)),
            'strings': draw(st.sampled_from([0, 0, 1023, 1024, 1025, 4095, 4096, 4097, 8192, 8193, 10000])),
            'picks': None, 'dst': draw(st.sampled_from(['path', 'stream', 'stream', 'same_path'])),
            'src': draw(st.sampled_from(['path', 'stream'])), 'index': draw(st.booleans()),
            'version': draw(st.sampled_from([4712, 4713]))}


def check(case, rec):
    from nptdms import TdmsFile, TdmsWriter
    if 'graph' in case:
        return check_scaled(case, rec)
    fs = long_fs(case) if case.get('long') else case['fs']
    if case.get('picks') is not None:
        phys, _plans = P.encode_with_plans(fs, lambda i, alts: P.nth_plan(alts, case['picks'][i]))
    else:
        phys = fs
    ex = expected_content(fs)
    if case.get('src_version') is not None:
        # the version number in the source's lead-ins (the reader accepts unknown numbers with a warning)
        phys = {'segments': [dict(sg, version=case['src_version']) for sg in phys['segments']]}
        rec.label('source_version=%d' % case['src_version'])
    data, _i, _l = encode_file(phys)
    rec.nontrivial(_nontrivial(fs, ex))
    rec.label(*S.spec_classes(phys))
    rec.label('dst=' + case['dst'], 'index=%s' % case['index'])
    for p in ex.channel_paths():
        t = ex.objects[p]['type']
        if t is None:
            rec.label('untyped_channel')
        elif ex.length(p) == 0:
            rec.label('empty_%s_channel' % ('string' if t == 'str' else 'timestamp' if t == 'ts' else 'numeric'))
    with scratch_dir() as d:
        src = os.path.join(d, 'src.tdms')
        with open(src, 'wb') as f:
            f.write(data)
        if case['dst'] == 'same_path':
            dst = src                       # defragment in place
            index = bool(case['index'])
            istream = None
        elif case['dst'] == 'path':
            dst = os.path.join(d, 'dst.tdms')
            index = bool(case['index'])
            istream = None
        else:
            dst = io.BytesIO()
            istream = io.BytesIO() if case['index'] else None
            index = istream if istream is not None else False
        source = src if (case['src'] == 'path' or case['dst'] == 'same_path') else io.BytesIO(data)
        if case.get('pathlib') and isinstance(dst, str) and not index:
            import pathlib
            dst_arg = pathlib.Path(dst)            # a path object as destination (no index file requested)
            rec.label('destination=pathlib.Path')
        else:
            dst_arg = dst
        if case.get('default_version'):
            # version argument left out: the documented default is 4712
            case = dict(case, version=4712)
            rec.label('version_argument_omitted')
            ok, _r = rec.guard('defragment', lambda: TdmsWriter.defragment(source, dst_arg, index_file=index))
        else:
            ok, _r = rec.guard('defragment', lambda: TdmsWriter.defragment(source, dst_arg, version=case['version'],
                                                                           index_file=index))
        if not ok:
            return
        if case['dst'] in ('path', 'same_path'):
            out = open(dst, 'rb').read()
            idx = open(dst + '_index', 'rb').read() if case['index'] else None
            if case['index']:
                # the copy as a user finds it: read by path, with the index file defragment wrote beside it
                rec.label('copy_read_with_its_index')
                for opener in (TdmsFile.read, TdmsFile.open):
                    ok, tfp = rec.guard('read_copy_by_path', lambda: opener(dst, raw_timestamps=True))
                    if not ok:
                        continue
                    try:
                        for clause, msg in compare_structure(ex, tfp, raw_ts=True, check_order=False):
                            if clause != 'datatype':
                                rec.violation('copy_by_path:' + clause, msg)
                        ok, res = rec.guard('read_copy_by_path', lambda: compare_data(
                            ex, tfp, lambda ch: ch.read_data(scaled=False), raw_ts=True, label='copy read by path (%s)' % opener.__name__))
                        if ok:
                            for clause, msg in res:
                                rec.violation('copy_by_path:' + clause, msg)
                    finally:
                        tfp.close()
        else:
            out = dst.getvalue()
            idx = istream.getvalue() if istream is not None else None
    ok, tf = rec.guard('read_copy', lambda: TdmsFile.read(io.BytesIO(out), raw_timestamps=True))
    if not ok:
        return
    if tf.tdms_version != case['version']:
        rec.violation('version', 'copy has version %r, requested %r' % (tf.tdms_version, case['version']))
    # structure: objects, properties, lengths (types handled below)
    for clause, msg in compare_structure(ex, tf, raw_ts=True, check_order=False):
        if clause == 'datatype':
            continue
        rec.violation('copy:' + clause, msg)
    for p in ex.channel_paths():
        g, c = split_path(p)
        if g not in tf or c not in tf[g]:
            continue
        ch = tf[g][c]
        t = ex.objects[p]['type']
        if t is not None and ex.length(p) > 0:
            want = NPTDMS_TYPE_NAME[{'f32u': 'f32', 'f64u': 'f64'}.get(t, t)]
            got = None if ch.data_type is None else ch.data_type.__name__
            if got != want:
                rec.violation('copy:datatype', '%s: data type %s in the copy, %s in the source' % (p, got, want))
    ok, res = rec.guard('read_copy', lambda: compare_data(ex, tf, lambda ch: ch.read_data(scaled=False), raw_ts=True,
                                                         label='copy'))
    if ok:
        for clause, msg in res:
            if 'dtype' in msg and ex is not None:
                pass
            rec.violation('copy:' + clause, msg)
    # structural validity of the copy
    try:
        segs = parse_file(out)
        for s in segs:
            if s['meta_consumed'] != s['raw_off']:
                rec.violation('copy:structure', 'metadata parses to %d bytes, raw_data_offset %d' % (
                    s['meta_consumed'], s['raw_off']))
            for o in s['objects']:
                if o['kind'] == 'full' and o['index_header'] != o['index_bytes_following'] + 4:
                    rec.violation('copy:structure', 'raw index length field %d but %d bytes follow' % (
                        o['index_header'], o['index_bytes_following']))
            decode_raw(s)
        if idx is not None:
            want = b''.join(b'TDSh' + s['lead_in'][4:] + s['meta_bytes'] for s in segs)
            if idx != want:
                rec.violation('copy:index_twin', 'index file of the copy is not the copy without raw data')
    except StructuralError as e:
        rec.violation('copy:structure', str(e)[:300])


def check_scaled(case, rec):
    """source with NI_Scale definitions: the copy must scale to exactly the same data (and keep the raw values)"""
    from nptdms import TdmsFile, TdmsWriter
    from props.C13 import build_file
    from vf.observe import le_bytes
    fs, graph = build_file(case)
    data, _i, _l = encode_file(fs)
    rec.nontrivial(True)
    rec.label('scaled_source', 'raw=' + case['type'], 'level=' + case['level'])
    out = io.BytesIO()
    ok, _r = rec.guard('defragment', lambda: TdmsWriter.defragment(io.BytesIO(data), out))
    if not ok:
        return
    try:
        a = TdmsFile.read(io.BytesIO(data))['g']['c']
        b = TdmsFile.read(io.BytesIO(out.getvalue()))['g']['c']
        sa, sb = np.asarray(a[:]), np.asarray(b[:])
        ra, rb = np.asarray(a.read_data(scaled=False)), np.asarray(b.read_data(scaled=False))
    except Exception as e:      # noqa
        rec.violation('copy:scaled:raised', describe_exc(e), key=exc_key(e))
        return
    if le_bytes(ra) != le_bytes(rb) or (len(ra) and ra.dtype.newbyteorder('=') != rb.dtype.newbyteorder('=')):
        rec.violation('copy:values', 'raw values of the copy %r differ from the source %r' % (rb[:4], ra[:4]))
    if le_bytes(sa) != le_bytes(sb) or (len(sa) and sa.dtype.newbyteorder('=') != sb.dtype.newbyteorder('=')):
        rec.violation('copy:scaled', 'scaled data of the copy %r (%s) differs from the source %r (%s)' % (
            sb[:4], sb.dtype, sa[:4], sa.dtype))


def _scaled_sources():
    from props.C13 import cases as c13_cases
    return c13_cases(noop=True)


def _wrap(fs_strategy, with_picks=False):
    @st.composite
    def cases(draw):
        if with_picks:
            h = draw(fs_strategy)
            fs, picks = h['fs'], h['picks']
        else:
            fs, picks = draw(fs_strategy), None
        return {'fs': fs, 'picks': picks, 'dst': draw(st.sampled_from(['path', 'stream', 'same_path'])),
                'src': draw(st.sampled_from(['path', 'stream'])), 'index': draw(st.booleans()),
                'version': draw(st.sampled_from([4712, 4713])),
                'src_version': draw(st.sampled_from([None, None, 4712, 4713, 4714, 0, 4711])),
                'default_version': draw(st.integers(0, 3)) == 0, 'pathlib': draw(st.integers(0, 2)) == 0}
    return cases()


def _fragmented():
    return S.file_spec(min_segments=3, max_segments=9, max_channels=4, max_n=4, max_chunks=2, zero_n=True)


def _empties():
    # channels that stay empty / untyped over the whole file
    return S.file_spec(min_segments=1, max_segments=3, max_channels=4, max_n=1, max_chunks=1, zero_n=True,
                       types=['str', 'ts', 'f64', 'i32', 'bool', 'c64'])


def jobs(tier):
    if tier == 'quick':
        return [Job('fragmented', 'hyp', lambda: _wrap(_fragmented()), n=1200),
                Job('empty_and_untyped', 'hyp', lambda: _wrap(_empties()), n=600),
                Job('inheritance_plans', 'hyp', lambda: _wrap(history(max_segments=7, max_channels=4), True), n=600),
                Job('scaled_sources', 'hyp', _scaled_sources, n=800, check=check_scaled),
                Job('long_channels', 'hyp', long_sources, n=200,
                    note='channels of 16 KiB - 768 KiB (lengths on and next to powers of two), 1-3 source segments')]
    return [Job('fragmented', 'hyp', lambda: _wrap(_fragmented()), n=40000),
            Job('empty_and_untyped', 'hyp', lambda: _wrap(_empties()), n=15000),
            Job('inheritance_plans', 'hyp', lambda: _wrap(history(max_segments=7, max_channels=4), True), n=15000),
            Job('scaled_sources', 'hyp', _scaled_sources, n=25000, check=check_scaled),
            Job('long_channels', 'hyp', long_sources, n=4000)]
