"""C15 - Byte order of a segment does not change its meaning."""
import io

from hypothesis import strategies as st

from vf.harness import Job
from vf import strategies as S
from vf.encode import encode_file
from vf.expect import expected_content
from vf.observe import compare_structure, compare_data

ID = 'C15'
LEVEL = 'exploration'
RULE = ("Hypothesis draws logical contents (C01 generator: 17 data types incl. timestamps, strings, complex; 13 property "
        "types; contiguous / interleaved; multi-chunk; DAQmx contents from the C11 generator in a second job) and a "
        "per-segment byte-order vector; the content is encoded (a) all little-endian, (b) all big-endian, (c) mixed per "
        "segment, each is read eagerly and lazily (raw and converted timestamps) and compared with the model, hence with "
        "each other. Non-trivial: content with >=1 multi-byte value or property; distinct by SHA-1 of the case."
        ' With a drawn cut inside the last segment, the truncated big-endian and mixed encodings must deliver what the '
        'truncated little-endian encoding delivers (per access mode).'
        ' Every chunk object of the lazy stream is read three times.'
        ' DAQmx contents include digital lines of signed 8-bit and of 16 / 32-bit ports (aligned words, lines 0-7), '
        're-encoded word by word.')
ASSUMPTIONS = [
    "vf/encode.py writes big-endian segments per the NI layout: ToC mask always little-endian, every other field, "
    "property and raw value in segment byte order, timestamps as (i64 seconds, u64 fractions) when big-endian, complex "
    "as two floats each in segment order",
]


def with_order(fs, order):
    segs = []
    for seg, be in zip(fs['segments'], order):
        s = dict(seg)
        s['be'] = bool(be)
        segs.append(s)
    return {'segments': segs}


def _multibyte(fs):
    for s in fs['segments']:
        for (p, t, n) in s.get('active') or []:
            if n and s.get('nchunks') and t not in ('i8', 'u8', 'bool'):
                return True
        for e in s.get('entries') or []:
            if e.get('props'):
                return True
    return False


def _snapshot(tf, unscaled):
    """{path: comparable content} of everything a file object delivers (values normalised to little-endian bytes)"""
    import numpy as np
    from vf.observe import le_bytes, raw_ts_pairs
    from nptdms.timestamp import TimestampArray

    def norm(d):
        if isinstance(d, dict):
            return {k: norm(v) for k, v in d.items()}
        if len(d) == 0:
            return ('empty',)       # the container of an empty result differs between access paths (not a byte-order matter)
        if isinstance(d, TimestampArray):
            return ('ts', raw_ts_pairs(d))
        a = np.asarray(d)
        if a.dtype == object:
            return ('obj', list(a))
        return (a.dtype.newbyteorder('=').str, len(a), le_bytes(a))
    out = {}
    for g in tf.groups():
        for ch in g.channels():
            out[ch.path] = norm(ch.read_data(scaled=False) if unscaled else ch[:])
    return out


def truncation_differential(rec, variants, cut, unscaled):
    """variants: [(name, bytes)] - encodings of the same content that differ only in byte order (equal sizes). Each is cut
    at the same offset; whatever the little-endian one delivers, the others must deliver too."""
    from nptdms import TdmsFile
    refs = {}
    for name, data in variants:
        blob = data[:cut]
        for mode in ('eager', 'lazy'):
            opener = TdmsFile.read if mode == 'eager' else TdmsFile.open
            try:
                tf = opener(io.BytesIO(blob), raw_timestamps=True)
                try:
                    snap = _snapshot(tf, unscaled)
                finally:
                    tf.close()
            except Exception as e:      # noqa
                if name == 'little':
                    return              # the little-endian reference itself is not readable here: C06's business
                from vf.harness import describe_exc, exc_key
                rec.violation('truncated:%s:%s:raised' % (name, mode), 'file cut at byte %d reads in little-endian but: %s' % (
                    cut, describe_exc(e)), key=exc_key(e))
                continue
            if name == 'little':
                refs[mode] = snap
                continue
            ref = refs[mode]
            if snap != ref:
                bad = [p for p in ref if snap.get(p) != ref[p]][:1] or ['(objects differ)']
                rec.violation('truncated:%s:%s:values' % (name, mode), 'file cut at byte %d of %d: %s reads %r in this byte order '
                              'but %r in the little-endian encoding' % (cut, len(data), bad[0], str(snap.get(bad[0]))[:120],
                                                                        str(ref.get(bad[0]))[:120]))
    rec.stat('truncation_differentials')


def _cut_offset(lay, pick):
    L = lay[-1]
    raw = L['end'] - L['data_pos']
    if raw < 2:
        return None
    return L['data_pos'] + 1 + pick % (raw - 1)


def check(case, rec):
    from nptdms import TdmsFile
    if case.get('daqmx'):
        return check_daqmx(case, rec)
    fs = case['fs']
    n = len(fs['segments'])
    ex = expected_content(fs)
    rec.nontrivial(_multibyte(fs))
    rec.label(*S.spec_classes(fs))
    variants = [('little', [False] * n), ('big', [True] * n), ('mixed', case['mix'])]
    enc_src = case.get('phys') or fs
    if case.get('phys'):
        rec.label('inheritance_plan')
    use_marker = bool(case.get('marker'))
    if use_marker:
        last = enc_src['segments'][-1]
        if any(t == 'str' for (_p, t, _n) in last.get('active') or []) and last.get('nchunks', 0) > 1:
            use_marker = False
    if use_marker:
        # the writer did not get to fill in the last segment's length (0xFFFFFFFFFFFFFFFF), all data is present
        enc_src = {'segments': enc_src['segments'][:-1] + [dict(enc_src['segments'][-1], marker=True)]}
        rec.label('length_unknown_marker')
    encoded = []
    for name, order in variants:
        data, _i, lay = encode_file(with_order(enc_src, order))
        encoded.append((name, data))
        if name == 'little':
            lay_le = lay
    last = enc_src['segments'][-1]
    if case.get('cut') is not None and not use_marker and not any(t == 'str' for (_p, t, _n) in last.get('active') or []):
        cut = _cut_offset(lay_le, case['cut'])
        if cut is not None and len(set(len(d) for (_n, d) in encoded)) == 1:
            rec.label('truncated_final_segment')
            truncation_differential(rec, encoded, cut, False)
    for name, data in encoded:
        for mode in ('eager', 'lazy'):
            for raw_ts in (True, False):
                opener = TdmsFile.read if mode == 'eager' else TdmsFile.open
                ok, tf = rec.guard('%s:%s' % (name, mode), lambda: opener(io.BytesIO(data), raw_timestamps=raw_ts))
                if not ok:
                    continue
                try:
                    for clause, msg in compare_structure(ex, tf, raw_ts=raw_ts):
                        rec.violation('%s:%s:%s' % (name, mode, clause), msg)
                    ok, res = rec.guard('%s:%s' % (name, mode),
                                        lambda: compare_data(ex, tf, lambda ch: ch[:], raw_ts=raw_ts))
                    if ok:
                        for clause, msg in res:
                            rec.violation('%s:%s:%s' % (name, mode, clause), msg)
                    if mode == 'lazy':
                        # the chunk stream hands out the segments' own arrays (in segment byte order)
                        from props.C03 import compare_parts
                        from vf.model import split_path
                        for p in ex.channel_paths():
                            g, c = split_path(p)
                            def twice():
                                # every chunk object is read several times: each access must deliver what the first one did
                                import numpy as np
                                out = []
                                for x in tf[g][c].data_chunks():
                                    first = x[:]
                                    keep = first.copy() if isinstance(first, np.ndarray) else list(first)
                                    for k in (2, 3):
                                        again = x[:]
                                        same = (again.tobytes() == keep.tobytes() and again.dtype == keep.dtype) \
                                            if isinstance(keep, np.ndarray) else list(again) == keep
                                        if not same:
                                            raise AssertionError('access %d to the same chunk object delivers %r, the first '
                                                                 'delivered %r' % (k, again[:3], keep[:3]))
                                    if len(list(x)) != len(keep):
                                        raise AssertionError('iterating the chunk delivers %d values, [:] %d' % (len(list(x)), len(keep)))
                                    out.append(keep)
                                return out
                            ok, parts = rec.guard('%s:lazy:chunks' % name, twice)
                            if ok:
                                for m in compare_parts(ex.objects[p]['type'], ex.values(p), parts,
                                                       '%s chunk stream %s' % (name, p), raw_ts):
                                    rec.violation('%s:lazy:chunk_values' % name, m)
                finally:
                    tf.close()


@st.composite
def cases(draw, **kw):
    fs = draw(S.file_spec(be=False, **kw))
    mix = draw(st.lists(st.booleans(), min_size=len(fs['segments']), max_size=len(fs['segments'])))
    return {'fs': fs, 'mix': mix, 'marker': draw(st.integers(0, 3)) == 0,
            'cut': draw(st.one_of(st.none(), st.integers(0, 10 ** 6)))}


def check_daqmx(case, rec):
    """DAQmx scalers: the same logical values in little-endian, big-endian and mixed segments"""
    from nptdms import TdmsFile
    from vf.daqmx import expected_daqmx, reencode_big_endian
    from vf.observe import compare_values
    from vf.model import split_path
    fs = case['fs']
    n = len(fs['segments'])
    exd = expected_daqmx(fs)                     # defined by the little-endian encoding
    rec.nontrivial(any(s['type'] not in ('u8', 'i8') for seg in fs['segments'] for e in seg['entries'] if e.get('hdr') == 'daqmx' for s in e['scalers']))
    rec.label('daqmx')
    encoded = []
    for name, order in (('little', [False] * n), ('big', [True] * n), ('mixed', case['mix'])):
        segs = [reencode_big_endian(seg) if be else seg for seg, be in zip(fs['segments'], order)]
        data, _i, lay = encode_file({'segments': segs})
        encoded.append((name, data))
        if name == 'little':
            lay_le = lay
    if case.get('cut') is not None:
        cut = _cut_offset(lay_le, case['cut'])
        if cut is not None:
            rec.label('truncated_final_segment')
            truncation_differential(rec, encoded, cut, True)
    for name, data in encoded:
        for mode in ('eager', 'lazy'):
            opener = TdmsFile.read if mode == 'eager' else TdmsFile.open
            ok, tf = rec.guard('%s:%s' % (name, mode), lambda: opener(io.BytesIO(data)))
            if not ok:
                continue
            try:
                for p, eo in exd.items():
                    g, c = split_path(p)
                    ch = tf[g][c]
                    ok, d = rec.guard('%s:%s' % (name, mode), lambda: ch.read_data(scaled=False))
                    if not ok:
                        continue
                    if eo['chan_type'] == 'raw':
                        for sid, (t, vals) in eo['scalers'].items():
                            for m in compare_values(t, vals, d.get(sid, []), '%s %s %s scaler %d' % (name, mode, p, sid)):
                                rec.violation('%s:%s:daqmx_values' % (name, mode), m)
                    else:
                        t, vals = list(eo['scalers'].values())[0]
                        for m in compare_values(t, vals, d, '%s %s %s' % (name, mode, p)):
                            rec.violation('%s:%s:daqmx_values' % (name, mode), m)
            finally:
                tf.close()


@st.composite
def daqmx_cases(draw):
    from vf.daqmx import daqmx_packed_file
    fs = draw(daqmx_packed_file())
    n = len(fs['segments'])
    return {'daqmx': True, 'fs': fs, 'mix': draw(st.lists(st.booleans(), min_size=n, max_size=n)),
            'cut': draw(st.one_of(st.none(), st.integers(0, 10 ** 6)))}


@st.composite
def plan_cases(draw):
    from props.C02 import history
    from vf import plans as P
    h = draw(history(max_segments=6, max_channels=3))
    phys, _plans = P.encode_with_plans(h['fs'], lambda i, alts: P.nth_plan(alts, h['picks'][i]))
    n = len(phys['segments'])
    # expected content comes from the logical (explicit) file; the physical encoding re-uses indexes across segments
    return {'fs': h['fs'], 'phys': phys, 'mix': draw(st.lists(st.booleans(), min_size=n, max_size=n)),
            'cut': draw(st.one_of(st.none(), st.integers(0, 10 ** 6)))}


def jobs(tier):
    if tier == 'quick':
        return [Job('contents', 'hyp', lambda: cases(max_segments=4), n=2500),
                Job('reused_indexes_mixed_order', 'hyp', plan_cases, n=1500),
                Job('daqmx_contents', 'hyp', daqmx_cases, n=1200)]
    return [Job('contents', 'hyp', lambda: cases(max_segments=5), n=100000),
            Job('bigger', 'hyp', lambda: cases(max_segments=6, max_n=40), n=15000),
            Job('reused_indexes_mixed_order', 'hyp', plan_cases, n=60000),
            Job('daqmx_contents', 'hyp', daqmx_cases, n=40000)]
