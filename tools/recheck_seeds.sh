#!/bin/bash
# tools/recheck_seeds.sh [lanes]  - re-apply every stored seed to a scratch copy of /repo HEAD and run the property's own
# quick check against it; prints one line per seed (rc=1 means the seed is still reported).
cd "$(dirname "$0")/.."
LANES=${1:-3}
ls seeded | awk -v n=$LANES '{print > ("/tmp/recheck_lane_" (NR % n))}'
for k in $(seq 0 $((LANES-1))); do
  ( while read name; do id=${name%%_*}; tools/try_seed.sh $name $id 2>&1 | cut -c1-140; done < /tmp/recheck_lane_$k ) > /tmp/recheck_out_$k.log 2>&1 &
done
wait
cat /tmp/recheck_out_*.log | sort
