#!/bin/bash
# tools/recheck_seeds.sh [lanes] [name-regex]
# Re-applies every stored seed (matching the regex) to a scratch copy of /repo HEAD and runs the FIRST check recorded in its
# meta.json caught_by list (the property's own check when it is among them); prints one line per seed and a summary of seeds
# that were recorded as caught but are not reported any more.  Seeds recorded as uncaught / neutralised are skipped.
cd "$(dirname "$0")/.."
LANES=${1:-4}; RE=${2:-.}
/venv/bin/python - "$RE" > /tmp/recheck_list.txt <<'PY'
import json, os, re, sys
for n in sorted(os.listdir('seeded')):
    if not re.search(sys.argv[1], n):
        continue
    m = json.load(open('seeded/%s/meta.json' % n))
    cb = m.get('confirmed_by', {}).get('caught_by', [])
    if not cb or 'note_after_R18' in m:
        continue
    own = n.split('_')[0]
    print(n, own if own in cb else cb[0])
PY
rm -f /tmp/recheck_lane_* /tmp/recheck_out_*.log
awk -v n=$LANES '{print > ("/tmp/recheck_lane_" (NR % n))}' /tmp/recheck_list.txt
for k in $(seq 0 $((LANES-1))); do
  [ -f /tmp/recheck_lane_$k ] || continue
  ( while read name chk; do tools/try_seed.sh $name $chk 2>&1 | cut -c1-140; done < /tmp/recheck_lane_$k ) > /tmp/recheck_out_$k.log 2>&1 &
done
wait
cat /tmp/recheck_out_*.log | sort
echo "--- not reported any more:"
cat /tmp/recheck_out_*.log | grep -v "rc=1 " || true
