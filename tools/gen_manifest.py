#!/venv/bin/python
"""Regenerate /verif/MANIFEST.json from the table below and the property modules that exist.
A property is claimed only if props/<ID>.py exists; everything else goes to not_applicable."""
import json
import os
import sys

HERE = os.path.dirname(os.path.dirname(os.path.abspath(__file__)))
sys.path.insert(0, HERE)

TABLE = {
    'C01': dict(
        technique="property-based testing: Hypothesis-generated logical files -> independent TDMS encoder -> "
                  "TdmsFile.read, compared with the model (model-based oracle), collect-then-shrink",
        text="Generated-input exploration: tens of thousands (quick) to hundreds of thousands (thorough) of "
             "well-formed files over all 17 types x layouts x byte orders x chunking x property types are read "
             "and compared bit-exactly with content known by construction. Sampled, not exhaustive.",
        note="Trusts the independent encoder vf/encode.py (NI layout), NumPy, Hypothesis; files up to a few "
             "hundred kB; non-UTF-8 strings, ExtendedFloat and >2 GiB files are outside the generator."),
}

TABLE.update({
    'C03': dict(
        technique="property-based testing: Hypothesis files x configurations (memmap, raw_timestamps, path/stream); every "
                  "access path compared with the model (differential across access paths + model oracle)",
        text="Generated-input exploration of all documented access paths (eager and lazy: [:], [...], .data, read_data, "
             "iteration, every integer index, channel and file chunk streams with offsets, unscaled variants) on "
             "thousands of generated files per run (plain, DAQmx, scaled with every scale type, 100+ segment twin files); each path is compared with content known by construction, indices also descending and from the end.",
        note="Trusts vf/encode.py and the model; paths documented as unavailable in a mode are not exercised; chunk "
             "boundaries themselves are not asserted, only concatenation and offsets."),
    'C04': dict(
        technique="property-based testing with per-file exhaustive enumeration of windows, slices and indices; oracle = "
                  "NumPy indexing on the model array (metamorphic on the eager full read for cut files)",
        text="For every generated file, every channel of length <= 7 gets ALL (offset,length) windows, ALL slices with "
             "start/stop in [-len-2,len+2]+None x 7 steps and ALL integer indices, lazily and eagerly, scaled and "
             "unscaled (millions of requests per quick run); longer channels get drawn requests. Files are biased to "
             "chunk/segment boundaries, absent channels and truncated final chunks.",
        note="Trusts NumPy slicing semantics, vf/encode.py; negative offset/length are outside the statement."),
    'C05': dict(
        technique="stateful property-based testing: Hypothesis RuleBasedStateMachine over one open file with any number "
                  "of live channel/file chunk iterators; oracle = model + fresh-file chunk sequence; ddmin of the op list",
        text="Thousands of generated single-threaded histories (<=30 steps quick, <=50 thorough) interleave index, "
             "slice, window, partial iteration and next() on live generators; every result is checked against what a "
             "fresh file yields and all iterators are drained to completion at teardown; plain, DAQmx, long and twin-offset-table files.",
        note="Single-threaded only (documented). Trusts vf/encode.py; canonical chunk sequences come from a fresh open "
             "of the same bytes and are validated against the model."),
})

TABLE.update({
    'C02': dict(
        technique="exhaustive enumeration of all valid encoding plans of small histories + Hypothesis-drawn plans of larger "
                  "ones against a reference model of the TDMS inheritance rules (metamorphic: plan vs explicit encoding; "
                  "fault injection of forbidden encodings)",
        text="All histories of 2 segments (quick) / 3 segments (thorough) over 2 channels are encoded in every valid way "
             "and read eagerly and lazily; thousands of random longer histories get drawn plans; forbidden encodings must "
             "be rejected. Exhaustive for the stated bound, sampled beyond it.",
        note="Trusts vf/plans.py (reference tracker of the inheritance rules) and vf/encode.py; 'rejected' = any exception."),
    'C06': dict(
        level='fault_enumeration',
        technique="fault injection: every byte offset of each Hypothesis-generated file as a crash point, explicit-offset and "
                  "length-unknown-marker variants; oracle = prefix / lower bound / len / lazy==eager / file_status rule "
                  "from the model",
        text="Crash-point enumeration: each generated file is cut at EVERY offset from 4 to its length (about 10^5 cut "
             "files per quick run) and read eagerly and lazily; values are non-zero and position-unique so invented data "
             "cannot pass as a prefix. Includes files encoded with inherited metadata, DAQmx files and 100+ segment files (cuts in the last segments).",
        note="Trusts vf/encode.py for segment boundaries; the amount recovered inside the cut segment is a statistic; marker "
             "variant restricted as the statement says."),
})

TABLE.update({
    'C09': dict(
        technique="property-based testing (differential): Hypothesis files on disk read with / without an index twin built by "
                  "the independent encoder (and by TdmsWriter), plus index-only refusal checks; oracle = model + equality of "
                  "the two reads",
        text="Thousands of generated files, including inheritance plans with metadata-less segments, padding and a data file "
             "truncated next to a complete index, are read through read / open / read_metadata with and without the index "
             "and compared with the model and each other; the index alone must describe the same objects and refuse data reads.",
        note="Trusts vf/encode.py's index twin; exception type of refused reads is free; zero-length channels may return empty."),
    'C15': dict(
        technique="property-based testing (metamorphic): the same Hypothesis-drawn content encoded little-endian, big-endian "
                  "and mixed per segment by the independent encoder must read identically and equal the model",
        text="Each generated content (all data and property types, both layouts, multi-chunk, DAQmx) is encoded in three byte "
             "orders and read eagerly and lazily with raw and converted timestamps.",
        note="Trusts vf/encode.py's big-endian layout (ToC little-endian, all other fields in segment order)."),
    'C19': dict(
        technique="property-based testing with instrumentation: recording stream under TdmsFile.open, byte map of every chunk "
                  "from the independent encoder as the oracle for each logged read",
        text="Per generated file ~24 drawn requests (windows, slices, indices, repeated indices); every logged read must lie "
             "inside the chunks overlapping the request (the requested channel's own bytes for contiguous layout) or inside "
             "a 64-byte per-segment allowance; a repeated index into the cached chunk must read nothing.",
        note="The 64-byte allowance and treating an empty request as sitting on its neighbouring chunk are explicit constants "
             "of the check; reads during open() and lazy index building are outside the statement."),
    'C20': dict(
        level='fault_enumeration',
        technique="fault injection + short call histories: field-aware malformed files and mismatching index files x path / "
                  "caller streams x APIs, with /proc/self/fd accounting (gc disabled) as the oracle; atheris byte-level fuzzing "
                  "of the same oracle in the thorough tier",
        text="Thousands of fault cases (12 fault kinds x 5 index situations x 3 source kinds x read / read_metadata / with-open "
             "/ open-close-read-close / defragment / TdmsWriter with-block incl. exception inside): after every step no "
             "descriptor below the scratch directory may remain, caller streams stay open, repeated close is silent and reads "
             "after close raise or return the right value.",
        note="Linux /proc based; CPython reference counting closes dropped file objects immediately, so a missing explicit "
             "close that only drops the reference is invisible; TdmsFile.open() itself raising is outside the statement."),
})

TABLE.update({
    'C07': dict(
        technique="property-based testing (round trip): Hypothesis write programs (sessions, append mode, all data forms and "
                  "property value kinds) -> TdmsWriter -> TdmsFile.read against a dictionary model; property type codes via "
                  "an independent parser",
        text="Thousands (quick) to >10^5 (thorough) generated write programs are executed and read back; every channel must "
             "be the concatenation of what was written (dtype and bits for arrays, values for lists, exact microseconds for "
             "datetimes) and every property the last value written with the TDMS type the statement prescribes. Programs include deliberately rejected calls in between, re-used and renamed writer objects, empty sessions, and a second phase that writes the TdmsGroup/TdmsChannel objects just read.",
        note="Rejected programs are outside the statement (acceptance rate measured, <95% = inconclusive); one type per "
             "channel; trusts vf/parse.py for type codes."),
    'C08': dict(
        technique="property-based testing with an independent strict structural parser of the writer's output (validity "
                  "predicate) and a byte-exact index-twin oracle",
        text="The same generated write programs as C07; every emitted segment is re-parsed by code that shares nothing with "
             "nptdms and must be self-consistent field by field; the index file must be the data file minus raw data with "
             "the tag replaced.",
        note="Trusts vf/parse.py's reading of the NI layout (index length field counts itself: 20 / 28)."),
    'C10': dict(
        technique="property-based testing (round trip through defragment): Hypothesis source files from the independent encoder, "
                  "copy read back and compared with the model of the source; copy re-parsed by the strict parser",
        text="Generated fragmented sources (many segments, inheritance plans, empty / untyped / property-only objects, raw "
             "timestamps) are defragmented to paths and streams with and without index; the copy must carry the same objects, "
             "property values, lengths and bit-identical raw values.",
        note="Float-with-unit channels compared as floats; order not asserted; DAQmx sources excluded as the statement says."),
    'C16': dict(
        technique="exhaustive enumeration of all names up to length 4 (pairs up to 3+3 quick, 4+4 thorough) over {quote, slash, "
                  "space, letter} + Hypothesis Unicode names; round-trip / injectivity / differential against an independent "
                  "path encoder; end-to-end through TdmsWriter, the independent encoder and TdmsFile",
        text="Complete for the stated bound (7.5k paths quick, 116k thorough), sampled for Unicode; end-to-end files with "
             "deliberately confusable names must keep every channel under its own names with its own data.",
        note="Trusts vf/model.py make_path (TDMS quoting rule); surrogates excluded."),
})

TABLE.update({
    'C11': dict(
        technique="property-based testing: Hypothesis DAQmx layouts with random buffer bytes against a byte-addressing model "
                  "(buffer, row stride, offset, type, byte order, bit); exhaustive lazy windows of small channels and every "
                  "cut of the final chunk (fault injection)",
        text="Thousands of generated DAQmx segments (1-3 buffers of differing widths/lengths, 1-4 channels, 1-3 scalers, "
             "format-changing and digital-line, raw and typed channels, both byte orders); eager, lazy, windowed and streamed "
             "reads are compared with values computed from the raw bytes; truncated final chunks must yield only complete rows.",
        note="Trusts vf/encode.py's DAQmx index layout; multi-length channels, timestamp scalers and multi-byte digital "
             "lines are outside the generator."),
    'C12': dict(
        technique="exhaustive enumeration of all 10^6 sub-second microsecond values (round trip) + boundary-biased Hypothesis "
                  "(seconds, fractions) pairs against exact rational arithmetic (fractions.Fraction); round trip through "
                  "writer, reader and defragment; time_track against its defining formula",
        text="Complete over the microsecond residues (every quick run), sampled over seconds and over 64-bit fractions with "
             "generators concentrated on unit boundaries; conversions must be within one unit, monotone and identical for "
             "scalar and array code paths.",
        note="1e-6 unit slack on 'within one unit'; 'ps' and as_datetime() are outside the statement."),
    'C13': dict(
        technique="property-based testing: Hypothesis scale graphs written into files by the independent encoder, evaluated by "
                  "an independent interpreter (model oracle); metamorphic window/elementwise and lazy/eager relations; raw "
                  "bytes compared before and after",
        text="Thousands of generated dataflow graphs (wiring, coefficients, raw type, property placement and precedence, "
             "NI_Number_Of_Scales present/absent, 'scaled' status) are read lazily and eagerly; values must match the defining "
             "formulas within a conditioning-aware bound, windows must equal slices bit for bit, raw data must never change.",
        note="Formulas in float64; Table and Subtract conventions as documented by the module; integer-only Add/Subtract not "
             "generated."),
    'C14': dict(
        technique="exhaustive enumeration of the raw type x scaling x length x mode x read-operation matrix + Hypothesis scale "
                  "graphs / files / DAQmx; oracle = result.dtype == channel.dtype and len",
        text="The finite matrix (18 type cases x up to 27 scalings x 3 lengths, ~2*10^5 individual reads) is enumerated "
             "completely on every run, random graphs incl. no-op scales and generated files add breadth.",
        note="Equality up to byte order; results without a dtype (Python str scalars, lists of str from chunk reads) are "
             "not judged; raw-timestamp mode only requires TimestampArray for non-empty results."),
    'C17': dict(
        technique="property-based testing (inverse round trip): independently written forward sensor laws generate the voltage, "
                  "the scaling must return the generating temperature / strain within 1e-6 relative",
        text="Tens of thousands of physical parameter sets over all RTD wire configurations (both polynomial branches, T -> 0), "
             "thermistor excitation circuits and the seven strain bridges with lead, gain and initial-voltage corrections, "
             "directly on the classes and through generated files; polynomial / table against Horner / clamped interpolation.",
        note="RTD coefficients within 5% of IEC 60751; voltage-excited 2-wire thermistor only with zero lead resistance."),
    'C18': dict(
        technique="dense-grid and boundary-neighbour enumeration + Hypothesis points against an independent transcription of the "
                  "NIST ITS-90 tables (differential oracle) and NIST's inverse error bounds",
        text="Per type and direction a 2*10^4 (quick) / 2*10^5 (thorough) point grid in one array call, every piece boundary "
             "with its +-2 ulp neighbours as scalars and arrays, and ThermocoupleScaling for all eight NI type codes in both "
             "directions with float32/float64 data, directly and through files.",
        note="Trusts the frozen copy of thermocouples_reference's NIST tables; inverse coefficients judged only through the "
             "NIST error bound."),
})

PENDING_REASON = "check not built yet in this session (planned in DESIGN.md section 4); not claimed until it runs"



# dimensions added after the table was first written (fourth seeding round); appended to the level text
EXTRA_TEXT = {
    'C19': " Shortened interleaved middle segments and twin files are included.",
    'C06': " A sample of cuts is also read by path beside the complete index file.",
    'C02': " Truncated equivalence (same raw bytes missing at the end) between compressed and explicit encodings is asserted too.",
    'C01': " Also read in compressed physical encodings (inherited indexes, metadata-less segments after header-only segments). Wide files (hundreds of channels) are included.",
    'C03': " A differential job (no content model) covers files in which a non-final segment ends in an incomplete chunk. Late inspection of file chunks, chunk object interfaces, pathlib paths and cut-file-beside-its-index are included.",
    'C04': " Integer indices are followed by windows and slices around the element just read. Files of 2-12 GiB that exist only as a formula exercise 64-bit offset arithmetic.",
    'C05': " Results are also compared in representation (container, dtype, shape) with a freshly opened file, and arrays returned earlier must not change. Model-free jobs compare each operation with a freshly opened file and re-read delivered chunk objects.",
    'C07': " Programs are also read lazily (both channel orders, one window per write); long arrays at power-of-two lengths, 100-140-segment programs, overwritten files and re-entered writers are generated.",
    'C08': " Long arrays at power-of-two lengths, overwritten files and re-entered writers are generated.",
    'C09': " Short non-final segments and re-entered writers are generated.",
    'C10': " Long sources (16-768 KiB channels) and reading the copy by path with its own index are included. Source version numbers, the omitted version argument and pathlib destinations are included.",
    'C11': " Re-declaring segments without a new object list and lock-step chunk streams are included. Digital lines of signed 8-bit and 16 / 32-bit ports are included.",
    'C12': " datetime64 values of the whole representable range go through a file as data and as properties.",
    'C13': " Arrays returned earlier must not be changed by later reads.",
    'C14': " Slices and windows are judged again after integer indices and must be arrays.",
    'C15': " A truncation differential compares cut big-endian / mixed files with the cut little-endian file.",
    'C16': " Channels re-written in the opposite order are read lazily from every offset.",
    'C17': " Sensor scales fed by other scales (input source 0 / 1) are included. Float32 voltages and repeated evaluation are included.",
    'C18': " Thermocouple scales fed by other scales and arrays mixing valid with NaN / inf / out-of-range samples are included. Long arrays at power-of-two lengths and held results are included. A frozen per-bin error profile of the inverse functions serves as an additional regression oracle.",
    'C20': " Unbuffered caller streams and the index file given as the path are included. The TdmsFile constructor's argument combinations are included. A large-chunk job (up to 2 MiB chunks) is included. Two files alive at once are included.",
}


def main():
    ids = [json.loads(line)['id'] for line in open(os.path.join(HERE, 'properties.jsonl'))]
    checks = []
    na = []
    for pid in ids:
        mod = os.path.join(HERE, 'props', pid + '.py')
        if os.path.exists(mod) and pid in TABLE:
            t = TABLE[pid]
            level = t.get('level', 'exploration')
            checks.append({
                'property_id': pid,
                'quick_cmd': './check %s --tier quick' % pid,
                'thorough_cmd': './check %s --tier thorough' % pid,
                'evidence_file': 'evidence/%s.json' % pid,
                'replay_cmd_template': './check %s --replay {path}' % pid,
                'engine': 'vf',
                'level_claimed': {'category': level, 'text': t['text'] + EXTRA_TEXT.get(pid, ''), 'design_ref': 'DESIGN.md section 4 (%s)' % pid},
                'level_note': t['note'],
                'technique': t['technique'],
            })
        else:
            na.append({'property_id': pid, 'reason': TABLE.get(pid, {}).get('na_reason', PENDING_REASON)})
    manifest = {
        'version': 1,
        'setup_cmd': './setup.sh',
        'hooks': {
            'guard': 'NPTDMS_VERIF',
            'enable': "no source hooks are needed: ./check puts /repo first on PYTHONPATH (pure Python, nothing to "
                      "build) and exports NPTDMS_VERIF=1, which nothing in /repo reads",
            'baseline_off_cmd': 'cd /repo && /venv/bin/python -m pytest -ra -q -p no:cacheprovider --timeout=900 '
                                '--continue-on-collection-errors',
            'source_commits': [],
            'add_only': True,
        },
        'engines': [{
            'name': 'vf',
            'path': 'vf/',
            'serves_properties': [c['property_id'] for c in checks],
            'kind_free_text': 'Hypothesis strategies / rule-based state machines / exhaustive small-domain '
                              'enumeration / fault injection / atheris, against an independent TDMS encoder, '
                              'parser and logical model; 16-way sharded; collect-then-shrink; JSON replay files',
        }],
        'checks': checks,
        'not_applicable': na,
        'notes': 'Every check: exit 0 held / exit 1 + VIOLATION line / exit 2 harness error. VERIF_SEED selects the '
                 'Hypothesis seeds (default 1). Known findings: known_findings.txt.',
    }
    with open(os.path.join(HERE, 'MANIFEST.json'), 'w') as f:
        json.dump(manifest, f, indent=1)
    print('MANIFEST.json: %d checks, %d not_applicable' % (len(checks), len(na)))


if __name__ == '__main__':
    main()
