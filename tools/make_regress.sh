#!/bin/bash
# tools/make_regress.sh <fix commit> <check ids...>
# Re-creates the defect a fix commit repaired (git revert --no-commit in a scratch worktree), lets the given checks find and
# shrink it there, and stores the shrunk cases as committed regression replays under replays/regress/<id>/.
C="$1"; shift
W=/tmp/rg_$C
git -C /repo worktree add -q --detach "$W" HEAD || exit 3
trap 'git -C /repo worktree remove --force "$W" >/dev/null 2>&1' EXIT
if ! git -C "$W" revert --no-commit "$C" >/dev/null 2>&1; then echo "revert of $C conflicts"; exit 3; fi
for id in "$@"; do
  rm -rf "$W/.rp"
  NPTDMS_REPO="$W" VERIF_EVIDENCE_DIR="$W/.ev" VERIF_REPLAY_DIR="$W/.rp" /verif/check "$id" --tier quick >/dev/null 2>&1
  rc=$?
  n=0
  mkdir -p /verif/replays/regress/$id
  for f in "$W"/.rp/$id/*.json; do
    [ -f "$f" ] || continue
    n=$((n+1)); [ $n -le 3 ] || break
    cp "$f" "/verif/replays/regress/$id/${C}_$(basename "$f")"
  done
  echo "fix=$C check=$id rc_on_reverted_tree=$rc replays_kept=$n"
done
