#!/bin/bash
# tools/try_seed.sh <seeded dir name, e.g. C18_g> <check ids...>
# Applies /verif/seeded/<name>/patch.diff to a scratch copy of /repo (never /repo itself) and runs the given quick
# checks against it.  TIER=thorough, VERIF_ONLY_JOB, VERIF_SCALE are honoured.
set -u
NAME="$1"; shift
SCR=$(mktemp -d /tmp/seedtry_XXXXXX)
trap 'rm -rf "$SCR"' EXIT
cp -r /repo/nptdms "$SCR/nptdms"
(cd "$SCR" && patch -s -p1 < /verif/seeded/$NAME/patch.diff) || { echo "patch failed"; exit 3; }
for id in "$@"; do
  out=$(NPTDMS_REPO="$SCR" VERIF_EVIDENCE_DIR="$SCR/ev" VERIF_REPLAY_DIR="$SCR/rp" VERIF_NO_SHRINK=1 /verif/check "$id" --tier ${TIER:-quick} 2>&1)
  rc=$?
  echo "seed=$NAME check=$id rc=$rc :: $(echo "$out" | grep -m1 'bucket' | cut -c1-200)"
done
