#!/venv/bin/python
"""Freeze the error profile of the pinned tree's inverse thermocouple functions:
   per type, 400 equal bins over the voltage range of the inverse function; per bin the largest |mv_to_celsius(E_ref(T)) - T|
   over a 400 000-point temperature grid.  Written to vf/data/thermocouple_inverse_profile.json (regenerate only on a tree whose
   inverse functions are known to be good: the profile is a regression oracle, the NIST bound per type stays the primary one)."""
import json, os, sys
sys.path.insert(0, os.path.dirname(os.path.dirname(os.path.abspath(__file__))))
sys.path.insert(0, os.environ.get('NPTDMS_REPO', '/repo'))
import numpy as np
from props import C18

out = {}
for t in C18.TYPES:
    out[t] = C18.inverse_profile(t).tolist()
json.dump({'bins': C18.PROFILE_BINS, 'grid': C18.PROFILE_GRID, 'types': out},
          open(os.path.join(os.path.dirname(os.path.dirname(os.path.abspath(__file__))), 'vf', 'data', 'thermocouple_inverse_profile.json'), 'w'))
print('written')
