#!/bin/bash
# tools/run_seed.sh <worktree> <seed dir name> <property id> [more check ids...]
# Confirms a seeded defect (tests pass with it, demo fails with it, demo passes without it) in the agent's scratch
# worktree, then runs the given quick checks against that worktree. Never touches /repo.
W="$1"; S="$2"; shift 2
HEAD=$(git -C /repo rev-parse HEAD)
git -C "$W" checkout -q -- nptdms 2>/dev/null
git -C "$W" checkout -q --detach "$HEAD" || { echo "cannot move worktree to $HEAD"; exit 3; }
cd "$W"
clean_rc=$( (PYTHONPATH="$W" timeout 300 /venv/bin/python "$S/demo.py" >/dev/null 2>&1; echo $?) )
git -C "$W" apply "$S/patch.diff" || { echo "seed=$W/$S PATCH DOES NOT APPLY at $HEAD"; exit 3; }
tests=$(/venv/bin/python -m pytest -q -p no:cacheprovider --timeout=900 nptdms 2>&1 | tail -1)
seeded_rc=$( (PYTHONPATH="$W" timeout 300 /venv/bin/python "$S/demo.py" >/dev/null 2>&1; echo $?) )
echo "seed=$W/$S demo_clean_rc=$clean_rc demo_seeded_rc=$seeded_rc tests: $tests"
for id in "$@"; do
  out=$(NPTDMS_REPO="$W" VERIF_EVIDENCE_DIR="$W/.ev" VERIF_REPLAY_DIR="$W/.rp" VERIF_NO_SHRINK=1 /verif/check "$id" --tier quick 2>&1)
  rc=$?
  echo "   check=$id rc=$rc :: $(echo "$out" | grep -m1 'bucket' | cut -c1-220)"
done
git -C "$W" checkout -q -- nptdms
rm -rf "$W/.ev" "$W/.rp"
