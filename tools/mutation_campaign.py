#!/venv/bin/python
"""Automatic mutation campaign: how sensitive are the checks to small syntactic changes of npTDMS?

    tools/mutation_campaign.py --n 120 --seed 1 --out /tmp/mutation_report.json [--files a.py,b.py] [--scale 0.2]

For each sampled mutant (AST-located, applied textually to a scratch copy of /repo/nptdms - never to /repo):
  1. run the repository's own test suite on the copy (stop at first failure); a mutant the suite kills is discarded;
  2. a SURVIVOR (suite still passes) is run against all 20 quick checks with budgets scaled by --scale;
  3. record which checks report a violation.
Survivors no check reports are listed for manual triage (equivalent mutant, or a gap in the checks).
"""
import argparse
import ast
import json
import os
import random
import shutil
import subprocess
import sys
import tempfile
import time

REPO = '/repo'
VERIF = os.path.dirname(os.path.dirname(os.path.abspath(__file__)))
FILES = ['reader.py', 'tdms_segment.py', 'base_segment.py', 'tdms.py', 'daqmx.py', 'channel_data.py', 'types.py',
         'timestamp.py', 'writer.py', 'scaling.py', 'common.py']
CHECKS = ['C%02d' % i for i in range(1, 21)]
# checks that exercise a file at all (a mutant is run against these only)
RELEVANT = {
    'scaling.py': ['C03', 'C10', 'C13', 'C14', 'C17', 'C18'],
    'writer.py': ['C07', 'C08', 'C09', 'C10', 'C12', 'C16', 'C20'],
    'timestamp.py': ['C01', 'C03', 'C07', 'C10', 'C12', 'C14', 'C15'],
    'types.py': ['C01', 'C02', 'C03', 'C06', 'C07', 'C08', 'C10', 'C12', 'C15'],
    'daqmx.py': ['C03', 'C04', 'C05', 'C06', 'C11', 'C13', 'C14', 'C15', 'C19'],
    'common.py': ['C01', 'C07', 'C08', 'C16'],
}
READ_SIDE = ['C01', 'C02', 'C03', 'C04', 'C05', 'C06', 'C09', 'C10', 'C11', 'C14', 'C15', 'C19', 'C20']
CMP = {ast.Lt: '<=', ast.LtE: '<', ast.Gt: '>=', ast.GtE: '>', ast.Eq: '!=', ast.NotEq: '==', ast.Is: 'is not',
       ast.IsNot: 'is'}
BIN = {ast.Add: '-', ast.Sub: '+', ast.Mult: '//', ast.FloorDiv: '*', ast.Mod: '//'}


def src_segment(lines, node):
    if node.lineno != node.end_lineno:
        return None
    return lines[node.lineno - 1][node.col_offset:node.end_col_offset]


def mutants_of(path, rel):
    text = open(path, encoding='utf-8').read()
    lines = text.split('\n')
    tree = ast.parse(text)
    out = []

    def replace(node_lineno, start, end, new, kind):
        line = lines[node_lineno - 1]
        newline = line[:start] + new + line[end:]
        if newline != line:
            out.append({'file': rel, 'line': node_lineno, 'kind': kind, 'old': line.strip(), 'new': newline.strip(),
                        'lineno0': node_lineno - 1, 'newline': newline})

    for node in ast.walk(tree):
        if isinstance(node, ast.FunctionDef) and node.name in ('__repr__', '__str__'):
            continue
        if isinstance(node, ast.Compare) and len(node.ops) == 1 and type(node.ops[0]) in CMP:
            left, right = node.left, node.comparators[0]
            if left.end_lineno == right.lineno == node.lineno:
                seg_start, seg_end = left.end_col_offset, right.col_offset
                replace(node.lineno, seg_start, seg_end, ' ' + CMP[type(node.ops[0])] + ' ', 'compare')
        elif isinstance(node, ast.BinOp) and type(node.op) in BIN:
            if isinstance(node.left, ast.Constant) and isinstance(node.left.value, str):
                continue        # string formatting / concatenation
            if node.left.end_lineno == node.right.lineno == node.lineno:
                replace(node.lineno, node.left.end_col_offset, node.right.col_offset, ' ' + BIN[type(node.op)] + ' ', 'arith')
        elif isinstance(node, ast.BoolOp) and node.values[0].end_lineno == node.values[1].lineno:
            a, b = node.values[0], node.values[1]
            replace(a.end_lineno, a.end_col_offset, b.col_offset, ' or ' if isinstance(node.op, ast.And) else ' and ', 'boolop')
        elif isinstance(node, ast.Constant) and node.lineno == node.end_lineno:
            v = node.value
            if v is True or v is False:
                replace(node.lineno, node.col_offset, node.end_col_offset, 'False' if v else 'True', 'bool_const')
            elif isinstance(v, int) and not isinstance(v, bool) and 0 <= v <= 64:
                replace(node.lineno, node.col_offset, node.end_col_offset, str(v + 1), 'int_const+1')
                if v > 0:
                    replace(node.lineno, node.col_offset, node.end_col_offset, str(v - 1), 'int_const-1')
        elif isinstance(node, ast.UnaryOp) and isinstance(node.op, ast.Not) and node.lineno == node.end_lineno:
            replace(node.lineno, node.col_offset, node.operand.col_offset, '', 'drop_not')
        elif isinstance(node, ast.If) and node.test.lineno == node.test.end_lineno:
            t = node.test
            replace(t.lineno, t.col_offset, t.end_col_offset, 'not (' + lines[t.lineno - 1][t.col_offset:t.end_col_offset] + ')',
                    'negate_if')
        elif isinstance(node, (ast.Assign, ast.AugAssign, ast.Expr)) and node.lineno == node.end_lineno:
            line = lines[node.lineno - 1]
            if isinstance(node, ast.Expr) and isinstance(node.value, ast.Constant):
                continue        # docstring
            if 'log.' in line or 'raise' in line:
                continue
            indent = line[:len(line) - len(line.lstrip())]
            out.append({'file': rel, 'line': node.lineno, 'kind': 'delete_stmt', 'old': line.strip(), 'new': 'pass',
                        'lineno0': node.lineno - 1, 'newline': indent + 'pass'})
    return lines, out


def run_mutant(m, all_lines, scale, timeout_checks):
    scr = tempfile.mkdtemp(prefix='mutc_')
    try:
        shutil.copytree(os.path.join(REPO, 'nptdms'), os.path.join(scr, 'nptdms'))
        lines = list(all_lines[m['file']])
        lines[m['lineno0']] = m['newline']
        with open(os.path.join(scr, 'nptdms', m['file']), 'w', encoding='utf-8') as f:
            f.write('\n'.join(lines))
        # compiles?
        r = subprocess.run(['/venv/bin/python', '-c', 'import sys; sys.path.insert(0, %r); import nptdms, nptdms.writer' % scr],
                           capture_output=True, text=True, timeout=120)
        if r.returncode != 0:
            return {'status': 'does_not_import'}
        t0 = time.time()
        try:
            r = subprocess.run(['/venv/bin/python', '-m', 'pytest', '-q', '-x', '-p', 'no:cacheprovider', '--timeout=300',
                                'nptdms'], cwd=scr, capture_output=True, text=True, timeout=1200)
            suite_ok = r.returncode == 0
        except subprocess.TimeoutExpired:
            suite_ok = False
        res = {'suite_s': round(time.time() - t0, 1)}
        if not suite_ok:
            res['status'] = 'killed_by_suite'
            return res
        res['status'] = 'survivor'
        caught = []
        details = {}
        env = dict(os.environ, NPTDMS_REPO=scr, VERIF_EVIDENCE_DIR=os.path.join(scr, 'ev'), VERIF_REPLAY_DIR=os.path.join(scr, 'rp'),
                   VERIF_NO_SHRINK='1', VERIF_SCALE=str(scale), VERIF_CASE_TIMEOUT='30')
        t0 = time.time()
        for cid in RELEVANT.get(m['file'], READ_SIDE):
            try:
                r = subprocess.run([os.path.join(VERIF, 'check'), cid, '--tier', 'quick'], env=env, capture_output=True,
                                   text=True, timeout=timeout_checks)
                rc = r.returncode
                first = next((ln.strip() for ln in r.stdout.splitlines() if ln.strip().startswith('bucket')), '')
            except subprocess.TimeoutExpired:
                rc, first = 124, 'timeout'
            if rc == 1:
                caught.append(cid)
                details[cid] = first[:160]
            elif rc not in (0, 1):
                details[cid] = 'rc=%d %s' % (rc, first[:100])
        res['checks_s'] = round(time.time() - t0, 1)
        res['caught_by'] = caught
        res['details'] = details
        return res
    finally:
        shutil.rmtree(scr, ignore_errors=True)


def main():
    ap = argparse.ArgumentParser()
    ap.add_argument('--n', type=int, default=60)
    ap.add_argument('--seed', type=int, default=1)
    ap.add_argument('--scale', type=float, default=0.2)
    ap.add_argument('--out', default='/tmp/mutation_report.json')
    ap.add_argument('--files', default=','.join(FILES))
    ap.add_argument('--timeout-checks', type=int, default=900)
    a = ap.parse_args()
    all_lines = {}
    pool = []
    for rel in a.files.split(','):
        lines, ms = mutants_of(os.path.join(REPO, 'nptdms', rel), rel)
        all_lines[rel] = lines
        pool.extend(ms)
    rnd = random.Random(a.seed)
    rnd.shuffle(pool)
    report = {'pool_size': len(pool), 'sampled': 0, 'results': []}
    for m in pool[:a.n]:
        res = run_mutant(m, all_lines, a.scale, a.timeout_checks)
        entry = {k: m[k] for k in ('file', 'line', 'kind', 'old', 'new')}
        entry.update(res)
        report['results'].append(entry)
        report['sampled'] += 1
        surv = [r for r in report['results'] if r['status'] == 'survivor']
        report['summary'] = {
            'killed_by_suite': sum(1 for r in report['results'] if r['status'] == 'killed_by_suite'),
            'does_not_import': sum(1 for r in report['results'] if r['status'] == 'does_not_import'),
            'survivors': len(surv),
            'survivors_caught_by_checks': sum(1 for r in surv if r['caught_by']),
            'survivors_not_caught': sum(1 for r in surv if not r['caught_by']),
        }
        with open(a.out, 'w') as f:
            json.dump(report, f, indent=1)
        print('%s:%d %-12s %-16s caught_by=%s :: %s -> %s' % (m['file'], m['line'], m['kind'], res['status'],
                                                             ','.join(res.get('caught_by', [])), m['old'][:60], m['new'][:60]),
              flush=True)
    print(json.dumps(report['summary']))


if __name__ == '__main__':
    main()
