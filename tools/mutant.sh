#!/bin/bash
# tools/mutant.sh <patch-file | -e 'python-expr-on-source'> <file-in-nptdms> -- <check ids...>
# Applies a mutation to a scratch copy of /repo (never to /repo itself) and runs the given quick checks against it.
# usage: tools/mutant.sh <name> <relative file> <old text> <new text> <ids...>
set -u
NAME="$1"; FILE="$2"; OLD="$3"; NEW="$4"; shift 4
SCR=$(mktemp -d /tmp/mut_XXXXXX)
trap 'rm -rf "$SCR"' EXIT
cp -r /repo/nptdms "$SCR/nptdms"
/venv/bin/python - "$SCR/$FILE" "$OLD" "$NEW" <<'PY'
import sys
p, old, new = sys.argv[1:4]
s = open(p).read()
if s.count(old) < 1:
    print("MUTANT ERROR: old text not found in", p); sys.exit(3)
open(p, 'w').write(s.replace(old, new, 1))
PY
[ $? -eq 0 ] || exit 3
if [ "${MUT_RUN_TESTS:-0}" = 1 ]; then
  (cd "$SCR" && /venv/bin/python -m pytest -q -p no:cacheprovider -x --timeout=900 nptdms 2>&1 | tail -1)
fi
for id in "$@"; do
  out=$(NPTDMS_REPO="$SCR" VERIF_EVIDENCE_DIR="$SCR/ev" VERIF_REPLAY_DIR="$SCR/rp" VERIF_NO_SHRINK=1 /verif/check "$id" --tier quick 2>&1)
  rc=$?
  nb=$(echo "$out" | grep -c '^VIOLATION')
  echo "mutant=$NAME check=$id rc=$rc violation_lines=$nb :: $(echo "$out" | grep -m1 'bucket' | cut -c1-160)"
done
