#!/bin/bash
# tools/run_all.sh <tier> <seed list...>   runs every registered check at the given seeds, prints one line per run
TIER="$1"; shift
cd "$(dirname "$0")/.."
export VERIF_EVIDENCE_DIR="${VERIF_EVIDENCE_DIR:-$PWD/.scratch_ev}" VERIF_REPLAY_DIR="${VERIF_REPLAY_DIR:-$PWD/.scratch_rp}"
for seed in "$@"; do
  for id in C01 C02 C03 C04 C05 C06 C07 C08 C09 C10 C11 C12 C13 C14 C15 C16 C17 C18 C19 C20; do
    t0=$(date +%s)
    out=$(VERIF_SEED=$seed ./check $id --tier "$TIER" 2>&1); rc=$?
    echo "tier=$TIER seed=$seed id=$id rc=$rc secs=$(( $(date +%s) - t0 )) :: $(echo "$out" | grep -E 'bucket|HARNESS|Error' | head -2 | cut -c1-200 | tr '\n' ' ')"
  done
done
