#!/venv/bin/python
"""tools/keep_seed.py <worktree> <seed dir> <property id> <check ids...>
Runs tools/run_seed.sh, and if the seed is confirmed (tests pass with it, demo fails with it, passes without it) copies
patch.diff, demo.py and meta.json to /verif/seeded/<property>_<seed>/ with what was run and which checks caught it."""
import json, os, re, shutil, subprocess, sys
W, S, pid = sys.argv[1:4]
checks = sys.argv[4:] or [pid]
out = subprocess.run(['/verif/tools/run_seed.sh', W, S] + checks, capture_output=True, text=True).stdout
print(out)
m = re.search(r'demo_clean_rc=(\d+) demo_seeded_rc=(\d+) tests: (.*)', out)
if not m:
    sys.exit('could not run seed')
clean, seeded, tests = int(m.group(1)), int(m.group(2)), m.group(3)
confirmed = clean == 0 and seeded != 0 and '497 passed' in tests and 'failed' not in tests
caught = {}
for mm in re.finditer(r'check=(\S+) rc=(\d+) :: ?(.*)', out):
    caught[mm.group(1)] = {'rc': int(mm.group(2)), 'first_bucket': mm.group(3).strip()}
dst = os.path.join('/verif/seeded', '%s_%s' % (pid, S.replace('seed_', '')))
if not confirmed:
    print('NOT CONFIRMED, not kept:', clean, seeded, tests)
    sys.exit(1)
os.makedirs(dst, exist_ok=True)
for f in ('patch.diff', 'demo.py'):
    shutil.copy(os.path.join(W, S, f), os.path.join(dst, f))
meta = json.load(open(os.path.join(W, S, 'meta.json')))
meta['breaks_property'] = pid
meta['confirmed_by'] = {
    'what_was_run': 'tools/run_seed.sh: worktree moved to /repo HEAD, demo on clean tree, git apply patch.diff, full pytest '
                    'suite in the worktree, demo with the patch, then the listed quick checks with NPTDMS_REPO=<worktree>',
    'repo_head': subprocess.run(['git', '-C', '/repo', 'rev-parse', '--short', 'HEAD'], capture_output=True, text=True).stdout.strip(),
    'demo_rc_clean': clean, 'demo_rc_with_patch': seeded, 'tests_with_patch': tests,
    'checks': caught,
    'caught_by': sorted(k for k, v in caught.items() if v['rc'] == 1),
}
json.dump(meta, open(os.path.join(dst, 'meta.json'), 'w'), indent=1)
print('kept', dst, 'caught_by', meta['confirmed_by']['caught_by'])
