import argparse
import logging
import os
import sys
import traceback


def main():
    ap = argparse.ArgumentParser()
    ap.add_argument('prop')
    ap.add_argument('--tier', default=os.environ.get('VERIF_TIER', 'quick'), choices=['quick', 'thorough'])
    ap.add_argument('--replay', default=None)
    ap.add_argument('--seed', type=int, default=None)
    a = ap.parse_args()
    seed = a.seed if a.seed is not None else int(os.environ.get('VERIF_SEED', '1') or 1)
    logging.disable(logging.CRITICAL)
    try:
        from vf import harness
        rc = harness.run_property(a.prop, a.tier, seed, replay=a.replay)
    except Exception:       # noqa
        traceback.print_exc()
        sys.stderr.write('HARNESS ERROR (exit 2)\n')
        rc = 2
    sys.stdout.flush()
    sys.exit(rc)


if __name__ == '__main__':
    main()
