"""Scratch files for checks that need paths on disk. Everything lives under $VF_SCRATCH (removed by the runner)."""
import contextlib
import itertools
import os
import shutil
import tempfile

_counter = itertools.count()


def scratch_root():
    root = os.environ.get('VF_SCRATCH')
    if not root:
        root = tempfile.mkdtemp(prefix='vf_scratch_')
        os.environ['VF_SCRATCH'] = root
    return root


@contextlib.contextmanager
def scratch_dir():
    d = os.path.join(scratch_root(), 'p%d_%d' % (os.getpid(), next(_counter)))
    os.makedirs(d)
    try:
        yield d
    finally:
        shutil.rmtree(d, ignore_errors=True)


@contextlib.contextmanager
def scratch_file(data, as_path=True, name='x.tdms', index=None):
    """yields (path or None, directory). The directory can be used for memmap files."""
    with scratch_dir() as d:
        path = None
        if as_path:
            path = os.path.join(d, name)
            with open(path, 'wb') as f:
                f.write(data)
            if index is not None:
                with open(path + '_index', 'wb') as f:
                    f.write(index)
        yield path, d
