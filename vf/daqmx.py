"""DAQmx file specs: strategy and byte-addressing model (independent of nptdms).

A DAQmx segment spec (see encode.py) has 'daqmx': True, entries with hdr 'daqmx' and, per chunk, the raw bytes of
every acquisition buffer.  The expected value r of chunk k of a scaler is

    buffers[k][buf][r * width + off : r * width + off + size]   interpreted in the segment's byte order
    (digital line scaler: bit (off % 8) of byte (off // 8) of the row)
"""
import struct

from hypothesis import strategies as st

from .model import make_path, tsize, TYPES, swap_bytes

FC_TYPES = ['u8', 'i8', 'u16', 'i16', 'u32', 'i32', 'u64', 'i64', 'f32', 'f64']


@st.composite
def daqmx_file(draw, max_segments=3, max_channels=4, max_buffers=3, max_len=5, max_chunks=3, max_width=16,
               be=True, fixed_be=None, carry=True, short_mid=False):
    nch = draw(st.integers(1, max_channels))
    # channel definitions that must stay fixed over the file: kind, channel type, scaler (id, type)
    chans = []
    for ci in range(nch):
        kind = draw(st.sampled_from(['fc', 'fc', 'dl']))
        if kind == 'dl':
            ns = draw(st.integers(1, 3))
            # digital lines of 8-bit ports (signed or unsigned type code) and of 16 / 32-bit ports
            stypes = [draw(st.sampled_from(['u8', 'u8', 'i8', 'u16', 'u32'])) for _ in range(ns)]
        else:
            ns = draw(st.integers(1, 3))
            stypes = [draw(st.sampled_from(FC_TYPES)) for _ in range(ns)]
        typed = ns == 1 and draw(st.booleans())
        chans.append({'path': make_path('d%d' % (ci % 2), 'ch%d' % ci), 'kind': kind, 'stypes': stypes,
                      'chan_type': stypes[0] if typed else 'raw'})
    nseg = draw(st.integers(1, max_segments))
    segs = []
    for si in range(nseg):
        if si > 0 and draw(st.integers(0, 3)) == 0:
            # raw-data-only continuation: no metadata block, same objects and layout as the previous segment,
            # its own chunk count, buffer bytes and (independently) byte order
            prev = segs[-1]
            nchunks = draw(st.integers(1, max_chunks))
            nb = len(prev['widths'])
            buffers = [[draw(st.binary(min_size=prev['buf_lens'][b] * prev['widths'][b],
                                       max_size=prev['buf_lens'][b] * prev['widths'][b])) for b in range(nb)]
                       for _k in range(nchunks)]
            seg_be = (draw(st.booleans()) if fixed_be is None else fixed_be) if be else False
            cont = dict(prev, meta=False, newlist=False, entries=[], be=seg_be, nchunks=nchunks, buffers=buffers,
                        eff_entries=[e for e in (prev.get('eff_entries') or prev['entries']) if e.get('hdr') == 'daqmx'])
            segs.append(cont)
            continue
        # "carry" segments have a metadata block WITHOUT kTocNewObjList: the previous segment's objects stay in force, the
        # listed channels are re-declared (other scaler offsets / buffers within the same buffer geometry) or added
        carried = carry and si > 0 and 'nom_lens' in segs[-1] and draw(st.integers(0, 2)) == 0
        if carried:
            widths = list(segs[-1]['widths'])
            lens = list(segs[-1]['nom_lens'])
            nbuf = len(widths)
        else:
            nbuf = draw(st.integers(1, max_buffers))
            widths = [draw(st.integers(1, max_width)) for _ in range(nbuf)]
            lens = [draw(st.integers(1, max_len)) for _ in range(nbuf)]
        act = draw(st.lists(st.sampled_from(chans), min_size=1, max_size=nch, unique_by=lambda c: c['path']))
        entries = []
        active = []
        used = set()
        ok_entries = []
        for c in act:
            # all scalers of a channel live in buffers of one common length
            length = draw(st.sampled_from(sorted(set(lens))))
            cands = [b for b in range(nbuf) if lens[b] == length]
            scalers = []
            feasible = True
            for sid, stype in enumerate(c['stypes']):
                size = tsize(stype)
                fit = [b for b in cands if widths[b] >= size]
                if not fit:
                    feasible = False
                    break
                b = draw(st.sampled_from(fit))
                if c['kind'] == 'dl':
                    if size == 1:
                        off = draw(st.integers(0, widths[b] * 8 - 1))
                    else:
                        # a line of a 16 / 32-bit port: the port word is aligned to its size and the line is one of bits 0-7.
                        # (For unaligned words or lines 8.. the format description does not say which bytes of a BIG-endian
                        # row form the word; all readings agree on the combinations generated here.)
                        off = draw(st.integers(0, widths[b] // size - 1)) * size * 8 + draw(st.integers(0, 7))
                else:
                    off = draw(st.integers(0, widths[b] - size))
                scalers.append({'type': stype, 'buf': b, 'off': off, 'fmt': draw(st.integers(0, 3)), 'id': sid})
                used.add(b)
            if not feasible:
                continue
            props = []
            if c['chan_type'] == 'raw':
                props = [['NI_Number_Of_Scales', 'u32', len(scalers)]]
            ent = {'path': c['path'], 'hdr': 'daqmx', 'kind': c['kind'], 'chan_type': c['chan_type'], 'n': length,
                   'scalers': scalers, 'widths': list(widths), 'props': props}
            ok_entries.append(ent)
        if not ok_entries:
            # fall back: one byte-wide scaler always fits
            carried = False
            c = chans[0]
            continue_seg = False
            b = 0
            scalers = []
            for sid, stype in enumerate(c['stypes']):
                size = tsize(stype)
                if widths[b] < size:
                    widths[b] = size
                scalers.append({'type': stype, 'buf': b, 'off': 0, 'fmt': 0, 'id': sid})
            used.add(b)
            ok_entries.append({'path': c['path'], 'hdr': 'daqmx', 'kind': c['kind'], 'chan_type': c['chan_type'],
                               'n': lens[b], 'scalers': scalers, 'widths': list(widths),
                               'props': [['NI_Number_Of_Scales', 'u32', len(scalers)]] if c['chan_type'] == 'raw' else []})
        for ent in ok_entries:
            ent['widths'] = list(widths)
        eff = None
        if carried:
            new = {e['path']: e for e in ok_entries}
            prev_eff = seg_entries(segs[-1])
            eff = [new.get(e['path'], e) for e in prev_eff] + [e for e in ok_entries if e['path'] not in
                                                                 set(x['path'] for x in prev_eff)]
        used = set(s['buf'] for ent in (eff or ok_entries) for s in ent['scalers'])
        # buffers nobody uses hold no rows
        eff_lens = [lens[b] if b in used else 0 for b in range(nbuf)]
        nchunks = draw(st.integers(1, max_chunks))
        buffers = []
        for k in range(nchunks):
            buffers.append([draw(st.binary(min_size=eff_lens[b] * widths[b], max_size=eff_lens[b] * widths[b]))
                            for b in range(nbuf)])
        seg_be = (draw(st.booleans()) if fixed_be is None else fixed_be) if be else False
        active_entries = list(eff or ok_entries)
        if si > 0 and not carried:
            # channels defined in earlier segments may be re-listed as having no data in this one
            seen_before = []
            for prev in segs:
                for e in seg_entries(prev):
                    if e.get('hdr') == 'daqmx' and e['path'] not in seen_before:
                        seen_before.append(e['path'])
            here = set(e['path'] for e in ok_entries)
            for pth in seen_before:
                if pth not in here and draw(st.booleans()):
                    ok_entries = ok_entries + [{'path': pth, 'hdr': 'nodata'}]
        seg = {'be': seg_be, 'interleaved': False, 'version': 4713, 'meta': True, 'newlist': not carried, 'daqmx': True,
               'entries': ok_entries, 'active': [[e['path'], 'daqmx', e['n']] for e in active_entries],
               'nchunks': nchunks, 'buffers': buffers, 'buf_lens': eff_lens, 'widths': list(widths), 'nom_lens': list(lens),
               'toc_extra': (1 << 5) if draw(st.integers(0, 2)) == 0 else 0}
        if carried:
            seg['eff_entries'] = eff
        segs.append(seg)
    if short_mid and len(segs) >= 2 and draw(st.integers(0, 2)) == 0:
        # a segment that is not the last one lost the tail of its final chunk (its lead-in states the shortened size)
        k = draw(st.integers(0, len(segs) - 2))
        chunk_bytes = sum(l * w for l, w in zip(segs[k]['buf_lens'], segs[k]['widths']))
        if chunk_bytes >= 2:
            segs[k] = dict(segs[k], trim_raw=draw(st.integers(1, chunk_bytes - 1)))
    return {'segments': segs}


def seg_entries(seg):
    """the DAQmx entries in force in a segment (its own, or the inherited ones of a metadata-less continuation)"""
    return [e for e in (seg.get('eff_entries') or seg['entries']) if e.get('hdr') == 'daqmx']


def scaler_chunk_values(seg, ent, scaler, k, rows=None):
    """LE canonical bytes of one scaler's values in chunk k (rows: number of complete rows available, default all)"""
    b = scaler['buf']
    width = seg['widths'][b]
    buf = seg['buffers'][k][b]
    n = ent['n'] if rows is None else rows
    size = tsize(scaler['type'])
    out = []
    for r in range(n):
        row = buf[r * width:(r + 1) * width]
        if ent['kind'] == 'dl':
            # the port word starts at byte off // 8, is read in the segment's byte order, and bit off % 8 of it is the line
            word = row[scaler['off'] // 8:scaler['off'] // 8 + size]
            value = int.from_bytes(word, 'big' if seg['be'] else 'little')
            out.append(((value >> (scaler['off'] % 8)) & 1).to_bytes(size, 'little'))
        else:
            v = row[scaler['off']:scaler['off'] + size]
            out.append(v[::-1] if seg['be'] else v)
    return b''.join(out)


def expected_daqmx(fs):
    """{path: {'chan_type', 'scalers': {id: (type, LE bytes)}, 'chunks': [(seg, k, n)], 'len'}}"""
    out = {}
    for si, seg in enumerate(fs['segments']):
        if not seg.get('daqmx'):
            continue
        for ent in seg_entries(seg):
            o = out.setdefault(ent['path'], {'chan_type': ent['chan_type'], 'scalers': {}, 'chunks': [], 'len': 0,
                                             'kind': ent['kind']})
            for k in range(seg['nchunks']):
                n = ent['n']
                if seg.get('trim_raw') and k == seg['nchunks'] - 1:
                    # the segment's last chunk lost its tail: only rows complete in every buffer the channel uses
                    chunk_bytes = sum(l * w for l, w in zip(seg['buf_lens'], seg['widths']))
                    rows = truncated_expectation(seg, chunk_bytes - seg['trim_raw'])
                    n = min([n] + [rows[s['buf']] for s in ent['scalers']])
                o['chunks'].append((si, k, n))
                o['len'] += n
                for s in ent['scalers']:
                    t, acc = o['scalers'].get(s['id'], (s['type'], b''))
                    o['scalers'][s['id']] = (t, acc + scaler_chunk_values(seg, ent, s, k, rows=n))
    return out


def truncated_expectation(seg, cut_bytes):
    """For the LAST chunk of `seg` cut after cut_bytes bytes: complete rows available per buffer"""
    rows = []
    remaining = cut_bytes
    done = False
    for b, w in enumerate(seg['widths']):
        total = seg['buf_lens'][b] * w
        if done:
            rows.append(0)
        elif remaining > total:
            rows.append(seg['buf_lens'][b])
            remaining -= total
        else:
            rows.append(remaining // w)
            done = True
    return rows


@st.composite
def daqmx_packed_file(draw, max_segments=2, max_channels=4, max_buffers=2, max_len=4, max_chunks=3):
    """DAQmx files whose format-changing scalers do not overlap (each field owns its bytes), so that the same logical
    values can be re-encoded in the other byte order (C15). All segments little-endian; see reencode_big_endian."""
    nch = draw(st.integers(1, max_channels))
    nbuf = draw(st.integers(1, max_buffers))
    lens = [draw(st.integers(1, max_len)) for _ in range(nbuf)]
    cursor = [0] * nbuf
    entries = []
    for ci in range(nch):
        b = draw(st.integers(0, nbuf - 1))
        ns = draw(st.integers(1, 3))
        typed = ns == 1 and draw(st.booleans())
        kind = draw(st.sampled_from(['fc', 'fc', 'dl']))
        scalers = []
        for sid in range(ns):
            stype = draw(st.sampled_from(FC_TYPES if kind == 'fc' else ['u8', 'i8', 'u16', 'u32']))
            cursor[b] += draw(st.integers(0, 2))            # padding
            if kind == 'dl':
                cursor[b] = -(-cursor[b] // tsize(stype)) * tsize(stype)        # port words are aligned to their size
                # a digital line: bit (0..7) of the port word that occupies the next tsize bytes
                scalers.append({'type': stype, 'buf': b, 'off': cursor[b] * 8 + draw(st.integers(0, 7)), 'fmt': 0, 'id': sid})
            else:
                scalers.append({'type': stype, 'buf': b, 'off': cursor[b], 'fmt': 0, 'id': sid})
            cursor[b] += tsize(stype)
        entries.append({'path': make_path('d', 'ch%d' % ci), 'hdr': 'daqmx', 'kind': kind,
                        'chan_type': scalers[0]['type'] if typed else 'raw', 'n': lens[b], 'scalers': scalers,
                        'props': [] if typed else [['NI_Number_Of_Scales', 'u32', ns]]})
    widths = [max(1, cursor[b] + draw(st.integers(0, 2))) for b in range(nbuf)]
    used = set(s['buf'] for e in entries for s in e['scalers'])
    eff = [lens[b] if b in used else 0 for b in range(nbuf)]
    for e in entries:
        e['widths'] = list(widths)
    segs = []
    for _si in range(draw(st.integers(1, max_segments))):
        nchunks = draw(st.integers(1, max_chunks))
        buffers = [[draw(st.binary(min_size=eff[b] * widths[b], max_size=eff[b] * widths[b])) for b in range(nbuf)]
                   for _k in range(nchunks)]
        segs.append({'be': False, 'interleaved': False, 'version': 4713, 'meta': True, 'newlist': True, 'daqmx': True,
                     'entries': [dict(e) for e in entries], 'active': [[e['path'], 'daqmx', e['n']] for e in entries],
                     'nchunks': nchunks, 'buffers': buffers, 'buf_lens': eff, 'widths': list(widths)})
    return {'segments': segs}


def reencode_big_endian(seg):
    """the same logical scaler values in a big-endian segment: every scaler field of every row byte-reversed"""
    out = dict(seg)
    out['be'] = True
    new_chunks = []
    for bufs in seg['buffers']:
        nb = []
        for b, blob in enumerate(bufs):
            ba = bytearray(blob)
            w = seg['widths'][b]
            rows = len(ba) // w if w else 0
            for e in seg_entries(seg):
                for s in e['scalers']:
                    if s['buf'] != b:
                        continue
                    size = tsize(s['type'])
                    start = s['off'] if e['kind'] == 'fc' else s['off'] // 8       # digital line: the port word's first byte
                    for r in range(rows):
                        a = r * w + start
                        ba[a:a + size] = ba[a:a + size][::-1]
            nb.append(bytes(ba))
        new_chunks.append(nb)
    out['buffers'] = new_chunks
    return out
