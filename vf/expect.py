"""Expected content of a file spec, computed from the model alone (no nptdms code)."""
from collections import OrderedDict
from fractions import Fraction

import numpy as np

from .model import TYPES, np_dtype, split_path, tsize, ts_pairs, chunk_len, make_path


class Expected(object):
    """
    objects : OrderedDict path -> dict(props=OrderedDict name -> (ptype, value), type=t|None|'daqmx',
                                       chunks=[(seg, chunk, values)], scalers (daqmx))
    """

    def __init__(self):
        self.objects = OrderedDict()

    def obj(self, path):
        o = self.objects.get(path)
        if o is None:
            o = {'props': OrderedDict(), 'type': None, 'chunks': [], 'scalers': None}
            self.objects[path] = o
        return o

    # ---- structure -------------------------------------------------------------------------
    def declared_groups(self):
        return [split_path(p)[0] for p in self.objects if len(split_path(p)) == 1]

    def all_groups(self):
        """declared groups in order of first appearance, then groups only implied by channels"""
        groups = self.declared_groups()
        seen = set(groups)
        for p in self.objects:
            c = split_path(p)
            if len(c) == 2 and c[0] not in seen:
                seen.add(c[0])
                groups.append(c[0])
        return groups

    def channels_of(self, group):
        return [split_path(p)[1] for p in self.objects
                if len(split_path(p)) == 2 and split_path(p)[0] == group]

    def channel_paths(self):
        return [p for p in self.objects if len(split_path(p)) == 2]

    # ---- values ----------------------------------------------------------------------------
    def length(self, path):
        o = self.objects[path]
        if o['type'] == 'daqmx':
            return sum(n for (_s, _k, n) in o['chunks'])
        t = o['type']
        if t is None:
            return 0
        return sum(chunk_len(t, v) for (_s, _k, v) in o['chunks'])

    def values(self, path):
        """Concatenated values: LE bytes for fixed-width types, list of str for strings"""
        o = self.objects[path]
        t = o['type']
        if t is None:
            return b''
        if t == 'str':
            out = []
            for (_s, _k, v) in o['chunks']:
                out.extend(v)
            return out
        return b''.join(bytes(v) for (_s, _k, v) in o['chunks'])

    def array(self, path):
        """numpy array of expected values (object array for str; structured (seconds, fractions) for ts)"""
        o = self.objects[path]
        return values_to_array(o['type'], self.values(path))

    def chunk_table(self, path):
        """[(segment, chunk, first value index, count)] for chunks holding values of this channel"""
        o = self.objects[path]
        t = o['type']
        out = []
        pos = 0
        for (s, k, v) in o['chunks']:
            n = v if o['type'] == 'daqmx' else chunk_len(t, v)
            out.append((s, k, pos, n))
            pos += n
        return out


TS_DTYPE = np.dtype([('seconds', '<i8'), ('second_fractions', '<u8')])


def values_to_array(t, vals):
    if t is None:
        return np.empty((0,), dtype='V8')
    if t == 'str':
        a = np.empty((len(vals),), dtype=object)
        for i, s in enumerate(vals):
            a[i] = s
        return a
    if t == 'ts':
        pairs = ts_pairs(vals)
        a = np.zeros((len(pairs),), dtype=TS_DTYPE)
        for i, (sec, frac) in enumerate(pairs):
            a[i] = (sec, frac)
        return a
    return np.frombuffer(bytes(vals), dtype=np_dtype(t)).copy()


def expected_content(fs):
    """Expected content of a file spec whose segments carry 'entries', 'active', 'nchunks', 'data'."""
    ex = Expected()
    for si, seg in enumerate(fs['segments']):
        if seg.get('meta', True):
            for ent in seg.get('entries') or []:
                ex.obj(ent['path'])
        # data
        for (p, t, n) in seg.get('active') or []:
            o = ex.obj(p)
            if t == 'daqmx':
                o['type'] = 'daqmx'
                for k in range(seg.get('nchunks', 0)):
                    o['chunks'].append((si, k, n))
                continue
            if o['type'] is None:
                o['type'] = t
            for k in range(seg.get('nchunks', 0)):
                chunk = seg['data'][p][k]
                if seg.get('trim_raw') and k == seg['nchunks'] - 1:
                    # the segment's last chunk lost its tail (the lead-in states the shortened size)
                    if not seg.get('interleaved'):
                        raise ValueError('no content model for a shortened contiguous chunk')
                    stride = sum(tsize(tt) for (_pp, tt, _nn) in seg['active'])
                    rows = max(n * stride - seg['trim_raw'], 0) // stride      # interleaved: complete rows only
                    chunk = chunk[:rows * tsize(t)]
                o['chunks'].append((si, k, chunk))
        if seg.get('meta', True):
            for ent in seg.get('entries') or []:
                o = ex.obj(ent['path'])
                if ent.get('hdr') == 'full' and o['type'] is None:
                    o['type'] = ent['type']
                for (name, ptype, value) in ent.get('props') or []:
                    o['props'][name] = (ptype, value)
    return ex


# ----------------------------------------------------------------------------------------------
# exact time arithmetic (C01 default-mode timestamps, C12)

EPOCH_1904_TO_1970_S = 2082844800   # seconds between 1904-01-01 and 1970-01-01


def exact_units_since_1970(sec, frac, per_second):
    """Exact rational number of units (per_second units per second) since the Unix epoch"""
    return (Fraction(sec - EPOCH_1904_TO_1970_S) + Fraction(frac, 2 ** 64)) * per_second


def ts_in_us_range(sec):
    return abs(sec) < 2 ** 62 // 10 ** 6 - 2 ** 32
