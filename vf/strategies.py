"""Hypothesis strategies for file specs (see encode.py for the spec layout).

All random choices go through Hypothesis draws; value payloads in 'unique' mode are a pure
function of the drawn structure (position-unique, non-zero patterns) so that they cost nothing
to generate and make misplaced / invented data visible.
"""
import struct

from hypothesis import strategies as st

from .model import (TYPES, ALL_TYPES, FIXED_TYPES, INT_RANGES, tsize, make_path, str_chunk_bytes)

NAME_POOL = ['g', 'h', 'k', 'a b', "q'q", 'x/y', "'", '/', '', "''", "é", 'Ω≈', "a'/'b", '名前', 'G', ' ']
PROP_NAME_POOL = ['p0', 'p1', 'p2', 'unit_string', 'wf_increment', 'π', '', "n'm", 'name', 'path', 'wf_start_time', 'wf_samples',
                  'P0']

F32_SPECIALS = [0x00000000, 0x80000000, 0x3F800000, 0xBF800000, 0x7F800000, 0xFF800000, 0x7FC00000,
                0x7FC00001, 0xFFC12345, 0x7FA00000, 0x00000001, 0x807FFFFF, 0x7F7FFFFF, 0x00800000]
F64_SPECIALS = [0x0, 0x8000000000000000, 0x3FF0000000000000, 0xBFF0000000000000, 0x7FF0000000000000,
                0xFFF0000000000000, 0x7FF8000000000000, 0x7FF8000000000001, 0xFFF8DEADBEEF0001,
                0x7FF4000000000000, 0x1, 0x800FFFFFFFFFFFFF, 0x7FEFFFFFFFFFFFFF, 0x0010000000000000]


# seconds range in which 1904-epoch timestamps are representable as datetime64[us] (with margin)
TS_SEC_MAX = 2 ** 42
TS_EXTREME = [struct.pack('<Qq', f, s) for s in (2 ** 63 - 1, -2 ** 63, 2 ** 56, -2 ** 50) for f in (0, 2 ** 64 - 1)]


def _special_values(t):
    """list of LE byte strings of special values of type t"""
    if t in INT_RANGES:
        lo, hi = INT_RANGES[t]
        fmt = {'i8': 'b', 'i16': 'h', 'i32': 'i', 'i64': 'q', 'u8': 'B', 'u16': 'H', 'u32': 'I', 'u64': 'Q'}[t]
        vals = sorted(set([lo, hi, 0, 1, max(lo, -1), hi - 1, lo + 1, hi // 2]))
        return [struct.pack('<' + fmt, v) for v in vals]
    if t in ('f32', 'f32u'):
        return [struct.pack('<I', v) for v in F32_SPECIALS]
    if t in ('f64', 'f64u'):
        return [struct.pack('<Q', v) for v in F64_SPECIALS]
    if t == 'c64':
        return [struct.pack('<II', a, b) for a in F32_SPECIALS[:8] for b in F32_SPECIALS[4:8]]
    if t == 'c128':
        return [struct.pack('<QQ', a, b) for a in F64_SPECIALS[:8] for b in F64_SPECIALS[4:8]]
    if t == 'bool':
        return [b'\x00', b'\x01']
    if t == 'ts':
        secs = [0, 1, -1, 3524551547, -2082844800, 2 ** 40, -2 ** 40, TS_SEC_MAX, -TS_SEC_MAX]
        fracs = [0, 1, 2 ** 63, 2 ** 64 - 1, 12345678900000000000]
        return [struct.pack('<Qq', f, s) for s in secs for f in fracs]
    raise KeyError(t)


_SPECIALS = {t: _special_values(t) for t in FIXED_TYPES}

_text = st.one_of(st.text(max_size=6), st.sampled_from(['a\x00', '\x00', 'pad\x00\x00', '°C', 'ß']))
_wild_text = st.one_of(
    st.sampled_from(['', 'a', 'abc', 'é', '日本語', "it's", 'x' * 40, '\x00', 'line\nbreak', '𝄞']),
    st.text(max_size=12))


@st.composite
def fixed_values(draw, t, n, ts_extreme=False):
    """n values of fixed-width type t as LE canonical bytes"""
    size = tsize(t)
    if n == 0:
        return b''
    mode = draw(st.integers(0, 3))
    if t == 'bool':
        bits = draw(st.binary(min_size=n, max_size=n))
        return bytes(b & 1 for b in bits)
    if t == 'ts' and not ts_extreme:
        # arbitrary fractions, seconds inside the datetime64[us]-representable range
        if mode == 0 or mode >= 2:
            fr = draw(st.binary(min_size=n * 8, max_size=n * 8))
            secs = draw(st.lists(st.integers(-TS_SEC_MAX, TS_SEC_MAX), min_size=n, max_size=n))
            return b''.join(fr[i * 8:(i + 1) * 8] + struct.pack('<q', secs[i]) for i in range(n))
    if mode == 0:
        return draw(st.binary(min_size=n * size, max_size=n * size))
    sp = _SPECIALS[t]
    if t == 'ts' and ts_extreme:
        sp = sp + TS_EXTREME
    if mode == 1:
        idx = draw(st.lists(st.integers(0, len(sp) - 1), min_size=n, max_size=n))
        return b''.join(sp[i] for i in idx)
    # mixture: random bytes with some specials patched in
    raw = bytearray(draw(st.binary(min_size=n * size, max_size=n * size)))
    k = draw(st.integers(0, min(n, 4)))
    for _ in range(k):
        pos = draw(st.integers(0, n - 1))
        raw[pos * size:(pos + 1) * size] = sp[draw(st.integers(0, len(sp) - 1))]
    return bytes(raw)


def unique_value(t, tag, counter):
    """Deterministic, non-zero, position-unique value (LE bytes) for channel tag / running counter"""
    size = tsize(t)
    c = counter + 1
    if t == 'bool':
        return b'\x01' if (c * 7 + tag) % 3 else b'\x00'
    if size == 1:
        return bytes([((c + tag * 31) % 127) + 1])
    if t in ('f32', 'f32u'):
        return struct.pack('<f', float(c) + tag * 4096.0 + 0.5)
    if t in ('f64', 'f64u'):
        return struct.pack('<d', float(c) + tag * 1048576.0 + 0.25)
    if t == 'c64':
        return struct.pack('<ff', float(c) + 0.5, float(tag) + 1.0)
    if t == 'c128':
        return struct.pack('<dd', float(c) + 0.25, float(tag) + 1.0)
    if t == 'ts':
        return struct.pack('<Qq', (c * 0x0123456789ABCDEF + tag) % 2 ** 64, 3500000000 + c + tag * 100000)
    if size == 2:
        return struct.pack('<H', ((c + tag * 1021) % 0x7FFE) + 1)
    if size == 4:
        return struct.pack('<I', ((c + tag * 1000003) % 0x7FFFFFFE) + 1)
    return struct.pack('<Q', (c + tag * 1000000007 + (c << 33)) % 0x7FFFFFFFFFFFFFFE + 1)


def unique_string(tag, counter, length):
    base = 'c%d#%d;' % (tag, counter)
    if length <= len(base):
        return base
    return base + 'é' * ((length - len(base)) // 2)


@st.composite
def prop_value(draw, ptype=None):
    if ptype is None:
        ptype = draw(st.sampled_from(['i8', 'i16', 'i32', 'i64', 'u8', 'u16', 'u32', 'u64', 'f32', 'f64',
                                      'str', 'bool', 'ts']))
    if ptype in INT_RANGES:
        lo, hi = INT_RANGES[ptype]
        special = [x for x in (lo, hi, 0, 1, hi - 1, 2 ** 31 - 1, 2 ** 31, -2 ** 31, -2 ** 31 - 1, 2 ** 32, 2 ** 63 - 1,
                               2 ** 63, 2 ** 63 + 1) if lo <= x <= hi]
        v = draw(st.one_of(st.sampled_from(special), st.integers(lo, hi)))
    elif ptype == 'f32':
        v = draw(st.one_of(st.sampled_from(_SPECIALS['f32']), st.binary(min_size=4, max_size=4)))
    elif ptype == 'f64':
        v = draw(st.one_of(st.sampled_from(_SPECIALS['f64']), st.binary(min_size=8, max_size=8)))
    elif ptype == 'str':
        v = draw(_wild_text)
    elif ptype == 'bool':
        v = draw(st.booleans())
    else:
        v = [draw(st.one_of(st.sampled_from([0, 1, -1, 3524551547, -2082844800]),
                            st.integers(-2 ** 40, 2 ** 40), st.integers(-TS_SEC_MAX, TS_SEC_MAX))),
             draw(st.one_of(st.sampled_from([0, 1, 2 ** 63, 2 ** 64 - 1]), st.integers(0, 2 ** 64 - 1)))]
    return ptype, v


@st.composite
def prop_list(draw, max_props=3, names=None):
    names = names or PROP_NAME_POOL
    ns = draw(st.lists(st.sampled_from(names), max_size=max_props, unique=True))
    out = []
    for nm in ns:
        pt, v = draw(prop_value())
        out.append([nm, pt, v])
    return out


DEFAULT_OPTS = dict(
    min_segments=1, max_segments=5, max_groups=3, max_channels=5, max_n=6, max_chunks=3,
    types=ALL_TYPES, interleaved=True, be=True, values='random', props=True, pad=True,
    absent=True, nodata_entries=True, names='pool', versions=(4712, 4713), zero_n=True,
    str_max=6, ts_extreme=False,
)


@st.composite
def universe(draw, opts):
    """[(group, channel, type, tag)] distinct channels"""
    o = opts
    if o['names'] == 'wide':
        gpool = ['g%d' % i for i in range(o['max_groups'])]
        cpool = ['c%d' % i for i in range(o['max_channels'])]
    elif o['names'] == 'simple':
        gpool = ['g%d' % i for i in range(o['max_groups'])]
        cpool = ['c%d' % i for i in range(8)]
    else:
        gpool = NAME_POOL
        cpool = NAME_POOL
    groups = draw(st.lists(st.sampled_from(gpool), min_size=1, max_size=o['max_groups'], unique=True))
    nch = draw(st.integers(o.get('min_channels', 1), o['max_channels']))
    chans = []
    seen = set()
    for i in range(nch):
        g = draw(st.sampled_from(groups))
        c = draw(st.sampled_from(cpool))
        if (g, c) in seen:
            continue
        seen.add((g, c))
        t = draw(st.sampled_from(list(o['types'])))
        chans.append((g, c, t, len(chans)))
    return groups, chans


@st.composite
def file_spec(draw, **kw):
    """Explicit-encoding file spec (every segment lists its objects in full, new object list)."""
    o = dict(DEFAULT_OPTS)
    o.update(kw)
    groups, chans = draw(universe(o))
    nseg = draw(st.integers(o['min_segments'], o['max_segments']))
    version = draw(st.sampled_from(list(o['versions'])))
    counters = {}
    segments = []
    for si in range(nseg):
        segments.append(draw(_segment(o, groups, chans, counters, version, si)))
    return {'segments': segments}


@st.composite
def _segment(draw, o, groups, chans, counters, version, si):
    be = o['be'] and draw(st.booleans())
    if o['absent'] or si == 0:
        act = draw(st.lists(st.sampled_from(chans), max_size=len(chans), unique=True))
        if not o['absent'] and not act:
            act = [chans[0]]
    else:
        act = list(chans)
    inter = o['interleaved'] and draw(st.integers(0, 3)) == 0
    flag_only = False
    if inter and len(act) == 1 and act[0][2] == 'str':
        # some writers set the interleaved flag on a segment holding a single string channel: it is laid out contiguously
        inter = False
        flag_only = True
    if inter:
        act = [c for c in act if c[2] != 'str']
    nlo = 0 if o['zero_n'] else 1
    if inter:
        n_common = draw(st.integers(nlo, o['max_n']))
        ns = [n_common] * len(act)
    else:
        ns = [draw(st.integers(nlo, o['max_n'])) for _ in act]
    nchunks = draw(st.integers(1, o['max_chunks'])) if act else 0
    active = []
    data = {}
    entries = []
    chunk_bytes = 0
    for (g, c, t, tag), n in zip(act, ns):
        p = make_path(g, c)
        active.append([p, t, n])
        chunks = []
        if t == 'str':
            for k in range(nchunks):
                if o['values'] == 'unique':
                    cnt = counters.get(p, 0)
                    lens = [draw(st.integers(0, o['str_max'])) for _ in range(n)]
                    ch = [unique_string(tag, cnt + i, lens[i]) for i in range(n)]
                    counters[p] = cnt + n
                else:
                    ch = [draw(_wild_text if o['str_max'] > 6 else _text) for _ in range(n)]
                chunks.append(ch)
            # every chunk of a segment must have the declared total byte size
            if n > 0:
                total = max(str_chunk_bytes(ch) for ch in chunks)
                for ch in chunks:
                    deficit = total - str_chunk_bytes(ch)
                    if deficit:
                        ch[-1] = ch[-1] + 'x' * deficit
            else:
                total = 0
            ent = {'path': p, 'hdr': 'full', 'type': t, 'n': n, 'total': total}
            chunk_bytes += total
        else:
            for k in range(nchunks):
                if o['values'] == 'unique':
                    cnt = counters.get(p, 0)
                    chunks.append(b''.join(unique_value(t, tag, cnt + i) for i in range(n)))
                    counters[p] = cnt + n
                else:
                    chunks.append(draw(fixed_values(t, n, o['ts_extreme'])))
            ent = {'path': p, 'hdr': 'full', 'type': t, 'n': n}
            chunk_bytes += n * tsize(t)
        data[p] = chunks
        entries.append(ent)
    header_only = False
    if chunk_bytes == 0:
        nchunks = 0
        for p in data:
            data[p] = []
    elif o.get('header_only', True) and draw(st.integers(0, 9)) == 0:
        # a segment that only declares its channels (raw data indexes with n > 0) and holds no chunk yet, as written by
        # loggers that emit the metadata first and append the raw data in later (often metadata-less) segments
        header_only = True
        nchunks = 0
        for p in data:
            data[p] = []
    # no-data entries: root, groups, inactive channels
    if o['nodata_entries']:
        extra_paths = ['/'] + [make_path(g) for g in groups] + \
                      [make_path(g, c) for (g, c, t, tag) in chans if make_path(g, c) not in data]
        chosen = draw(st.lists(st.sampled_from(extra_paths), max_size=4, unique=True))
        if o.get('stopped_first'):
            # channels that are not active in this segment are all re-listed as "no data", ahead of the active ones
            chosen = [p for p in extra_paths if p.count("'/'") or p.count("/'") == 2]
            for p in reversed(chosen):
                entries.insert(0, {'path': p, 'hdr': 'nodata'})
            chosen = []
        for p in chosen:
            pos = draw(st.integers(0, len(entries)))
            entries.insert(pos, {'path': p, 'hdr': 'nodata'})
    if o['props']:
        for ent in entries:
            if draw(st.integers(0, 2)) == 0:
                ent['props'] = draw(prop_list())
    seg = {'be': be, 'interleaved': inter, 'version': version, 'meta': True, 'newlist': True,
           'entries': entries, 'active': active, 'nchunks': nchunks, 'data': data}
    if flag_only:
        seg['toc_extra'] = 1 << 5
    if o['pad'] and draw(st.integers(0, 5)) == 0:
        seg['pad'] = draw(st.integers(1, 9))
    if (chunk_bytes == 0 or header_only) and draw(st.integers(0, 3)) == 0:
        seg['raw_flag'] = True
    return seg


@st.composite
def with_continuation(draw, fs):
    """Append 1-2 raw-data-only segments (no metadata block) that repeat the last segment's layout and chunk count with new
    values - what a logger produces while nothing but the data changes."""
    last = fs['segments'][-1]
    if not last.get('active') or not last.get('nchunks') or any(t == 'str' for (_p, t, _n) in last['active']) \
            or not last.get('meta', True) or last.get('trim_raw') or last.get('marker'):
        return fs
    segs = list(fs['segments'])
    for k in range(draw(st.integers(1, 2))):
        data = {}
        for (p, t, n) in last['active']:
            data[p] = [b''.join(unique_value(t, 7 + k, 1000 + 100 * k + c * n + i) for i in range(n)) for c in range(last['nchunks'])]
        # (the byte order is a flag of each segment's own lead-in: the continuation may differ from the declaring segment)
        segs.append(dict(last, meta=False, newlist=False, entries=[], data=data, pad=0,
                         be=bool(last.get('be')) if draw(st.integers(0, 2)) else not last.get('be')))
    return {'segments': segs}


@st.composite
def shorten_interleaved_middle(draw, fs):
    """Give one interleaved segment that is NOT the last one an incomplete final chunk (lead-in states the shortened size).
    Returns fs unchanged when there is no such segment."""
    segs = fs['segments']
    cands = []
    for i, sg in enumerate(segs[:-1]):
        if sg.get('interleaved') and sg.get('nchunks', 0) >= 1 and sg.get('active') and not sg.get('marker'):
            stride = sum(tsize(t) for (_p, t, _n) in sg['active'])
            size = stride * sg['active'][0][2]
            if size >= 2:
                cands.append((i, size))
    if not cands:
        return fs
    i, size = draw(st.sampled_from(cands))
    trim = draw(st.integers(1, size - 1))
    return {'segments': [dict(sg, trim_raw=trim) if k == i else sg for k, sg in enumerate(segs)]}


def spec_classes(fs):
    """labels describing a file spec (for class histograms)"""
    labels = set()
    segs = fs['segments']
    labels.add('segments=%s' % (len(segs) if len(segs) < 4 else '4+'))
    if any(s.get('interleaved') and s.get('active') for s in segs):
        labels.add('interleaved')
    if any(s.get('be') for s in segs):
        labels.add('big_endian')
    if any(s.get('nchunks', 0) > 1 for s in segs):
        labels.add('multi_chunk')
    if any(s.get('pad') for s in segs):
        labels.add('padding')
    if any(s.get('trim_raw') for s in segs[:-1]):
        labels.add('short_final_chunk_in_middle_segment')
    if any(s.get('nchunks', 0) == 0 and any(a[2] > 0 for a in (s.get('active') or [])) for s in segs):
        labels.add('declaring_segment_without_raw_data')
    if any(not s.get('meta', True) for s in segs):
        labels.add('no_metadata_segment')
    paths = set()
    for s in segs:
        for (p, t, n) in s.get('active') or []:
            paths.add(p)
            labels.add('type=' + t)
    for p in paths:
        pres = [any(a[0] == p for a in (s.get('active') or [])) for s in segs]
        if any(pres) and not all(pres):
            labels.add('channel_absent_in_some_segment')
            break
    return labels


@st.composite
def twin_long_file(draw, min_segments=102, max_segments=140, types=('i16', 'f64', 'u8', 'i32')):
    """Many short segments in which 2-3 channels have IDENTICAL per-segment value counts for a long prefix (>= 100
    segments) and diverge only in the tail: their cumulative-offset tables agree in the first hundred entries."""
    nch = draw(st.integers(2, 3))
    chans = [(make_path('g', 'c%d' % i), draw(st.sampled_from(list(types))), i) for i in range(nch)]
    nseg = draw(st.one_of(st.sampled_from([100, 101, 200]), st.integers(min_segments, max_segments)))
    # the channels' per-segment counts agree up to (excluding) segment `first_diff`; the block-wise comparison of their
    # offset tables works in blocks of 100, so divergence at entries 97..nseg-1 covers block ends and partial tail blocks
    first_diff = draw(st.integers(97, nseg - 1))
    tail = nseg - first_diff
    counters = {}
    segs = []
    for si in range(nseg):
        common = draw(st.integers(1, 2))
        entries, active, data = [], [], {}
        nchunks = draw(st.integers(1, 2))
        for (p, t, tag) in chans:
            n = common if si < nseg - tail else draw(st.integers(1, 3))
            chunks = []
            for _k in range(nchunks):
                cnt = counters.get(p, 0)
                chunks.append(b''.join(unique_value(t, tag, cnt + i) for i in range(n)))
                counters[p] = cnt + n
            entries.append({'path': p, 'hdr': 'full', 'type': t, 'n': n})
            active.append([p, t, n])
            data[p] = chunks
        segs.append({'be': False, 'interleaved': False, 'version': 4713, 'meta': True, 'newlist': True,
                     'entries': entries, 'active': active, 'nchunks': nchunks, 'data': data})
    return {'segments': segs}
