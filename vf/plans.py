"""Reference model of TDMS segment-metadata inheritance and enumeration of valid encoding plans (C02).

A *logical* file is an explicit-encoding file spec (every segment: new object list, every listed object with a
full index or 'nodata').  For it we enumerate all *plans*: per segment
    - metadata block dropped entirely                        (meta False)
    - new-object-list flag set, per active object 'full' or 'same'
    - new-object-list flag clear: objects carried over from the previous segment's list may be left unlisted,
      restated in full, declared 'same', or switched off with 'nodata'; newcomers are appended
The tracker below is written from the TDMS format rules:
    * an object's raw-data index persists (last full definition wins) through segments in which it has no data
      and through new-object-list segments;  'same' (0x00000000) re-activates it with that index
    * without the new-object-list flag the previous segment's object list carries over, in order, including each
      object's activity; newly named objects are appended
    * a segment without metadata repeats the previous segment's list exactly
"""
import copy
import itertools


def _index_of(ent):
    if ent['hdr'] != 'full':
        return None
    return (ent['type'], ent['n'], ent.get('total'))


class State(object):
    def __init__(self):
        self.plist = []          # [{'path','has_data','index'}]
        self.last_index = {}     # path -> index of the most recent full definition
        self.seen = set()        # paths that appeared in any segment's object list

    def clone(self):
        s = State()
        s.plist = [dict(o) for o in self.plist]
        s.last_index = dict(self.last_index)
        s.seen = set(self.seen)
        return s

    def active(self):
        return [(o['path'], o['index']) for o in self.plist if o['has_data']]


def explicit_view(seg):
    """(ordered active [(path,index)], listed paths in order, props by path, entry by path)"""
    active = []
    listed = []
    props = {}
    ents = {}
    for ent in seg['entries']:
        listed.append(ent['path'])
        ents[ent['path']] = ent
        if ent.get('props'):
            props[ent['path']] = ent['props']
        if ent['hdr'] == 'full':
            active.append((ent['path'], _index_of(ent)))
    return active, listed, props, ents


def segment_choices(state, seg, first):
    """All encodings of logical segment `seg` given the reader state.

    Returns a list of *alternatives*; each alternative is
        {'meta': False}                                                  or
        {'meta': True, 'newlist': bool, 'slots': [(path, [header options]), ...]}
    where a header option is 'full' | 'same' | 'nodata' | 'unlisted'.
    """
    active, listed, props, ents = explicit_view(seg)
    alts = []
    act_paths = [p for p, _ in active]
    act_index = dict(active)
    # --- no metadata at all
    if (not first and not props and all(p in state.seen for p in listed)
            and state.active() == active):
        alts.append({'meta': False})
    # --- new object list
    slots = []
    for p in listed:
        ent = ents[p]
        if ent['hdr'] == 'full':
            opts = ['full']
            if state.last_index.get(p) == act_index[p] and p in state.seen:
                opts.append('same')
        else:
            opts = ['nodata']
        slots.append((p, opts))
    alts.append({'meta': True, 'newlist': True, 'slots': slots})
    # --- flag clear
    if first:
        # for the first segment of a file the flag has no previous list to refer to
        alts.append({'meta': True, 'newlist': False, 'slots': [(p, [o for o in opts if o != 'same'])
                                                                for (p, opts) in slots]})
        return alts
    prev_paths = [o['path'] for o in state.plist]
    prev = {o['path']: o for o in state.plist}
    newcomers = [p for p in listed if p not in prev]
    result_active = [p for p in prev_paths if p in act_index] + [p for p in newcomers if p in act_index]
    if result_active == act_paths:
        slots = []
        for p in prev_paths:
            o = prev[p]
            if p in act_index:
                idx = act_index[p]
                opts = ['full']
                if o['index'] == idx:
                    opts.append('same')
                    if o['has_data'] and p not in props:
                        opts.append('unlisted')
            else:
                if o['has_data']:
                    opts = ['nodata']
                elif p in props:
                    opts = ['nodata']
                elif p in listed:
                    opts = ['nodata', 'unlisted']
                else:
                    opts = ['unlisted']
            slots.append((p, opts))
        for p in newcomers:
            if p in act_index:
                opts = ['full']
                if p in state.seen and state.last_index.get(p) == act_index[p]:
                    opts.append('same')
            else:
                opts = ['nodata']
            slots.append((p, opts))
        alts.append({'meta': True, 'newlist': False, 'slots': slots})
    return alts


def count_plans(alts):
    n = 0
    for a in alts:
        if not a['meta']:
            n += 1
        else:
            k = 1
            for (_p, opts) in a['slots']:
                k *= len(opts)
            n += k
    return n


def iter_plans(alts):
    for a in alts:
        if not a['meta']:
            yield {'meta': False}
        else:
            paths = [p for p, _ in a['slots']]
            for combo in itertools.product(*[opts for _p, opts in a['slots']]):
                yield {'meta': True, 'newlist': a['newlist'], 'headers': list(zip(paths, combo))}


def nth_plan(alts, k):
    """k-th plan (k taken modulo the number of plans) without materialising all of them"""
    total = count_plans(alts)
    k %= total
    for a in alts:
        if not a['meta']:
            if k == 0:
                return {'meta': False}
            k -= 1
            continue
        size = 1
        for (_p, opts) in a['slots']:
            size *= len(opts)
        if k < size:
            headers = []
            for (p, opts) in a['slots']:
                headers.append((p, opts[k % len(opts)]))
                k //= len(opts)
            return {'meta': True, 'newlist': a['newlist'], 'headers': headers}
        k -= size
    raise AssertionError


def apply_plan(state, seg, plan):
    """Physical segment spec for `plan` and the successor state."""
    active, listed, props, ents = explicit_view(seg)
    act_index = dict(active)
    new = state.clone()
    phys = {k: v for k, v in seg.items() if k != 'entries'}
    if not plan['meta']:
        phys['meta'] = False
        phys['entries'] = []
        phys['newlist'] = False
        return phys, new
    entries = []
    for (p, h) in plan['headers']:
        if h == 'unlisted':
            continue
        if h == 'full':
            e = dict(ents[p])
        elif h == 'same':
            e = {'path': p, 'hdr': 'same'}
        else:
            e = {'path': p, 'hdr': 'nodata'}
        if p in props:
            e['props'] = props[p]
        entries.append(e)
    phys['entries'] = entries
    phys['meta'] = True
    phys['newlist'] = plan['newlist']
    if plan['newlist']:
        phys['newlist_force'] = True
    # successor state
    if plan['newlist'] or not state.plist and not state.seen:
        plist = []
        for (p, h) in plan['headers']:
            if h == 'unlisted':
                continue
            if h == 'full':
                idx = act_index[p]
                new.last_index[p] = idx
                plist.append({'path': p, 'has_data': True, 'index': idx})
            elif h == 'same':
                plist.append({'path': p, 'has_data': True, 'index': new.last_index[p]})
            else:
                plist.append({'path': p, 'has_data': False, 'index': new.last_index.get(p)})
            new.seen.add(p)
        new.plist = plist
    else:
        by = {o['path']: o for o in new.plist}
        for (p, h) in plan['headers']:
            if h == 'unlisted':
                continue
            if p in by:
                o = by[p]
                if h == 'full':
                    o['index'] = act_index[p]
                    o['has_data'] = True
                    new.last_index[p] = act_index[p]
                elif h == 'same':
                    o['has_data'] = True
                else:
                    o['has_data'] = False
            else:
                if h == 'full':
                    idx = act_index[p]
                    new.last_index[p] = idx
                    o = {'path': p, 'has_data': True, 'index': idx}
                elif h == 'same':
                    o = {'path': p, 'has_data': True, 'index': new.last_index[p]}
                else:
                    o = {'path': p, 'has_data': False, 'index': new.last_index.get(p)}
                new.plist.append(o)
                by[p] = o
            new.seen.add(p)
    # sanity: the tracker must agree with the logical segment
    if new.active() != active:
        raise AssertionError('plan does not reproduce the logical segment: %r vs %r' % (new.active(), active))
    return phys, new


def is_explicit(plan, seg):
    if not plan['meta'] or not plan['newlist']:
        return False
    return all(h in ('full', 'nodata') for (_p, h) in plan['headers'])


def encode_with_plans(fs, pick):
    """Apply pick(i, alts) -> plan to every segment. Returns (physical file spec, list of plans)."""
    state = State()
    segs = []
    plans = []
    for i, seg in enumerate(fs['segments']):
        alts = segment_choices(state, seg, first=(i == 0))
        plan = pick(i, alts)
        phys, state = apply_plan(state, seg, plan)
        segs.append(phys)
        plans.append(plan)
    return {'segments': segs}, plans
