"""Adapters around nptdms: comparisons of what a TdmsFile reports with Expected content,
recording streams and descriptor accounting."""
import io
import math
import os
import struct
from fractions import Fraction

import numpy as np

from .model import TYPES, NPTDMS_TYPE_NAME, np_dtype, make_path, split_path, ts_pairs, tsize
from .expect import exact_units_since_1970, ts_in_us_range, values_to_array, EPOCH_1904_TO_1970_S


def le_bytes(arr):
    """bytes of a numeric array normalised to little-endian element order"""
    arr = np.asarray(arr)
    if arr.dtype.byteorder == '>':
        return arr.byteswap().tobytes()
    return arr.tobytes()


def dtype_eq(a, b):
    """dtype equality up to byte order"""
    a = np.dtype(a)
    b = np.dtype(b)
    return a.newbyteorder('=') == b.newbyteorder('=')


def raw_ts_pairs(arr):
    """TimestampArray -> list of (seconds, fractions)"""
    secs = np.asarray(arr['seconds']).astype('<i8')
    fr = np.asarray(arr['second_fractions']).astype('<u8')
    return list(zip((int(x) for x in secs), (int(x) for x in fr)))


def dt64_to_int(x, unit='us'):
    return int(np.asarray(x).astype('datetime64[%s]' % unit).astype('int64'))


def check_dt64_us_within_one(exp_pairs, got, where):
    """datetime64[us] conversions must lie within one microsecond of the exact rational time"""
    msgs = []
    got = np.asarray(got)
    if got.dtype != np.dtype('<M8[us]'):
        return ['%s: dtype %s, expected datetime64[us]' % (where, got.dtype)]
    ints = got.astype('int64')
    for i, (sec, frac) in enumerate(exp_pairs):
        if not ts_in_us_range(sec):
            continue
        exact = exact_units_since_1970(sec, frac, 10 ** 6)
        if abs(Fraction(int(ints[i])) - exact) > Fraction(1000001, 1000000):
            msgs.append('%s[%d]: got %d us, exact %s us (sec=%d frac=%d)' % (
                where, i, int(ints[i]), float(exact), sec, frac))
            break
    return msgs


def compare_values(t, exp_vals, got, where, raw_ts=False):
    """Compare data returned by nptdms with expected values (LE bytes / list of str).
    Returns list of messages (empty = equal)."""
    if t is None:
        if len(got) != 0:
            return ['%s: %d values for a channel without data type' % (where, len(got))]
        return []
    if t == 'str':
        try:
            g = list(got)
        except TypeError:
            return ['%s: result not iterable: %r' % (where, type(got))]
        if g != list(exp_vals):
            return ['%s: strings differ: got %r expected %r' % (where, g[:6], list(exp_vals)[:6])]
        if isinstance(got, np.ndarray) and len(got) and got.dtype != np.dtype('O'):
            return ['%s: string data dtype %s, expected object' % (where, got.dtype)]
        return []
    if t == 'ts':
        pairs = ts_pairs(exp_vals)
        if raw_ts and not pairs and len(got) == 0:
            # an empty result has no values to represent; its container type is not asserted here (see C14)
            return []
        if raw_ts:
            try:
                gp = raw_ts_pairs(got)
            except Exception as e:      # noqa
                return ['%s: raw timestamps not readable as (seconds, second_fractions): %r' % (where, e)]
            if gp != pairs:
                return ['%s: raw timestamps differ: got %r expected %r' % (where, gp[:4], pairs[:4])]
            # single items of the array and of arrays derived from it (slice, copy) are TdmsTimestamp objects
            try:
                if len(pairs) and hasattr(got, 'dtype') and got.dtype.names:
                    for label, arr, idx in (('[0]', got, 0), ('[:][-1]', got[:], len(pairs) - 1),
                                            ('.copy()[0]', got.copy(), 0), ('[::-1][0]', got[::-1], len(pairs) - 1)):
                        item = arr[0] if label in ('[0]', '.copy()[0]', '[::-1][0]') else arr[-1]
                        want = pairs[idx]
                        if (getattr(item, 'seconds', None), getattr(item, 'second_fractions', None)) != want:
                            return ['%s: item %s of the raw timestamp array is %r, expected TdmsTimestamp%r' % (
                                where, label, item, want)]
            except Exception as e:      # noqa
                return ['%s: item access on raw timestamp array failed: %r' % (where, e)]
            return []
        if len(got) != len(pairs):
            return ['%s: %d timestamps, expected %d' % (where, len(got), len(pairs))]
        return check_dt64_us_within_one(pairs, got, where)
    got = np.asarray(got)
    want = np_dtype(t)
    if not dtype_eq(got.dtype, want):
        return ['%s: dtype %s, expected %s' % (where, got.dtype, want)]
    gb = le_bytes(got)
    if gb != bytes(exp_vals):
        n = len(exp_vals) // tsize(t)
        return ['%s: values differ (%d got / %d expected): got %s expected %s' % (
            where, len(got), n, gb[:32].hex(), bytes(exp_vals)[:32].hex())]
    return []


def prop_equal(ptype, exp, got, raw_ts):
    """NaN-aware, type-aware property value equality"""
    if ptype == 'str':
        return isinstance(got, str) and got == exp
    if ptype == 'bool':
        return isinstance(got, (bool, np.bool_)) and bool(got) == bool(exp)
    if ptype == 'ts':
        sec, frac = exp
        if raw_ts:
            return (getattr(got, 'seconds', None) == sec and getattr(got, 'second_fractions', None) == frac)
        if not isinstance(got, np.datetime64):
            return False
        if not ts_in_us_range(sec):
            return True
        exact = exact_units_since_1970(sec, frac, 10 ** 6)
        return abs(Fraction(dt64_to_int(got)) - exact) <= Fraction(1000001, 1000000)
    if ptype in ('f32', 'f64'):
        if isinstance(exp, (bytes, bytearray)):
            exp = struct.unpack('<f' if ptype == 'f32' else '<d', bytes(exp))[0]
        if not isinstance(got, float):
            return False
        if math.isnan(exp):
            return math.isnan(got)
        return got == exp and math.copysign(1, got) == math.copysign(1, exp)
    return isinstance(got, int) and not isinstance(got, bool) and got == exp


def compare_props(exp_props, got_props, where, raw_ts):
    msgs = []
    gk = list(got_props.keys())
    ek = list(exp_props.keys())
    if sorted(gk) != sorted(ek):
        msgs.append('%s: property names %r, expected %r' % (where, gk, ek))
        return msgs
    for name, (ptype, val) in exp_props.items():
        g = got_props[name]
        if not prop_equal(ptype, val, g, raw_ts):
            msgs.append('%s: property %r = %r (%s), expected %s %r' % (
                where, name, g, type(g).__name__, ptype, val if not isinstance(val, bytes) else val.hex()))
    return msgs


def compare_structure(ex, tf, raw_ts=False, check_props=True, check_order=True):
    """Objects, order, properties, lengths and data types of a TdmsFile against Expected.
    Returns list of (clause, message)."""
    out = []
    groups = [g.name for g in tf.groups()]
    exp_groups = ex.all_groups()
    declared = ex.declared_groups()
    if sorted(groups) != sorted(exp_groups) or len(groups) != len(set(groups)):
        out.append(('objects', 'groups %r, expected %r' % (groups, exp_groups)))
        return out
    if check_order:
        got_declared = [g for g in groups if g in set(declared)]
        if got_declared != declared:
            out.append(('order', 'declared group order %r, expected %r' % (got_declared, declared)))
    # the mapping protocol must report the same names as groups() / channels()
    try:
        listed = list(iter(tf))
        if listed != groups or len(tf) != len(groups) or any(g not in tf for g in groups):
            out.append(('objects', 'iter(file) %r / len(file) %d / "in" disagree with groups() %r' % (listed, len(tf), groups)))
    except Exception as e:      # noqa
        out.append(('objects', 'iterating the file object raised %s: %s' % (type(e).__name__, e)))
    if check_props:
        rp = ex.objects.get('/', {'props': {}})['props']
        for m in compare_props(rp, tf.properties, 'root', raw_ts):
            out.append(('properties', m))
    for gname in exp_groups:
        grp = tf[gname]
        if grp.name != gname:
            out.append(('objects', 'group looked up as %r reports name %r' % (gname, grp.name)))
        chans = [c.name for c in grp.channels()]
        try:
            listed = list(iter(grp))
            if listed != chans or len(grp) != len(chans) or any(c not in grp for c in chans):
                out.append(('objects', 'group %r: iter(group) %r / len(group) %d / "in" disagree with channels() %r' % (
                    gname, listed, len(grp), chans)))
        except Exception as e:      # noqa
            out.append(('objects', 'iterating group %r raised %s: %s' % (gname, type(e).__name__, e)))
        exp_ch = ex.channels_of(gname)
        if sorted(chans) != sorted(exp_ch) or len(chans) != len(set(chans)):
            out.append(('objects', 'group %r channels %r, expected %r' % (gname, chans, exp_ch)))
            continue
        if check_order and chans != exp_ch:
            out.append(('order', 'group %r channel order %r, expected %r' % (gname, chans, exp_ch)))
        if check_props:
            gp = ex.objects.get(make_path(gname), {'props': {}})['props']
            for m in compare_props(gp, grp.properties, 'group %r' % gname, raw_ts):
                out.append(('properties', m))
        for cname in exp_ch:
            p = make_path(gname, cname)
            ch = grp[cname]
            eo = ex.objects[p]
            if ch.name != cname or ch.group_name != gname or ch.path != p:
                out.append(('objects', 'channel %r reports name=%r group=%r path=%r' % (
                    p, ch.name, ch.group_name, ch.path)))
            if check_props:
                for m in compare_props(eo['props'], ch.properties, 'channel %s' % p, raw_ts):
                    out.append(('properties', m))
            if len(ch) != ex.length(p):
                out.append(('length', 'len(%s) = %d, expected %d' % (p, len(ch), ex.length(p))))
            t = eo['type']
            if t == 'daqmx':
                continue
            got_t = None if ch.data_type is None else ch.data_type.__name__
            want_t = None if t is None else NPTDMS_TYPE_NAME[t]
            if got_t != want_t:
                out.append(('datatype', '%s data_type %s, expected %s' % (p, got_t, want_t)))
    return out


def compare_data(ex, tf, getter, raw_ts=False, label='data'):
    """Compare each channel's full data obtained through getter(channel) with Expected."""
    out = []
    for p in ex.channel_paths():
        eo = ex.objects[p]
        if eo['type'] == 'daqmx':
            continue
        g, c = split_path(p)
        try:
            ch = tf[g][c]
        except KeyError:
            out.append(('objects', 'channel %s missing' % p))
            continue
        got = getter(ch)
        for m in compare_values(eo['type'], ex.values(p), got, '%s %s' % (label, p), raw_ts):
            out.append(('values', m))
    return out


# ----------------------------------------------------------------------------------------------

class RecordingStream(io.BytesIO):
    """BytesIO that logs (position, nbytes) of every read / readinto that transferred bytes"""

    def __init__(self, data):
        super().__init__(data)
        self.log = []
        self.seeks = 0

    def read(self, n=-1):
        pos = self.tell()
        b = super().read(n)
        if len(b):
            self.log.append((pos, len(b)))
        return b

    def readinto(self, buf):
        pos = self.tell()
        n = super().readinto(buf)
        if n:
            self.log.append((pos, n))
        return n

    def seek(self, *a):
        self.seeks += 1
        return super().seek(*a)


class VirtualStream(io.RawIOBase):
    """A read-only seekable stream of `size` bytes that exists only as a formula: the first len(head) bytes are `head`, every
    later byte at absolute position p is (p * 7 + 13) % 251.  Logs (position, nbytes) of every read like RecordingStream."""

    def __init__(self, head, size):
        super().__init__()
        self.head = bytes(head)
        self.size = size
        self.pos = 0
        self.log = []

    @staticmethod
    def pattern(start, n):
        return ((np.arange(start, start + n, dtype=np.uint64) * np.uint64(7) + np.uint64(13)) % np.uint64(251)).astype(np.uint8)

    def content(self, start, n):
        n = max(0, min(n, self.size - start))
        if n == 0:
            return b''
        out = bytearray()
        if start < len(self.head):
            out += self.head[start:start + n]
        rest = n - len(out)
        if rest > 0:
            out += self.pattern(start + len(out), rest).tobytes()
        return bytes(out)

    def readable(self):
        return True

    def seekable(self):
        return True

    def tell(self):
        return self.pos

    def seek(self, offset, whence=0):
        self.pos = offset if whence == 0 else self.pos + offset if whence == 1 else self.size + offset
        return self.pos

    def read(self, n=-1):
        if n is None or n < 0:
            n = self.size - self.pos
        if n > 1 << 28:
            raise MemoryError('read of %d bytes from a virtual file' % n)
        b = self.content(self.pos, n)
        if b:
            self.log.append((self.pos, len(b)))
        self.pos += len(b)
        return b

    def readinto(self, buf):
        mv = memoryview(buf).cast('B')
        if len(mv) > 1 << 28:
            raise MemoryError('read of %d bytes from a virtual file' % len(mv))
        b = self.content(self.pos, len(mv))
        mv[:len(b)] = b
        if b:
            self.log.append((self.pos, len(b)))
        self.pos += len(b)
        return len(b)


def open_fds(under):
    """{fd: target} of this process's descriptors that point below directory `under`"""
    out = {}
    base = '/proc/self/fd'
    for name in os.listdir(base):
        try:
            target = os.readlink(os.path.join(base, name))
        except OSError:
            continue
        if target.startswith(under):
            out[int(name)] = target
    return out


def compare_scalars(t, exp_vals, got, idxs, where, raw_ts=False):
    """Compare a list of scalars (from iteration / integer indexing) with expected values.
    idxs: positions in the expected data the scalars correspond to (None = all, in order)."""
    if t is None:
        return [] if len(got) == 0 else ['%s: %d values from a channel without data type' % (where, len(got))]
    if t == 'str':
        exp = list(exp_vals)
    elif t == 'ts':
        exp = ts_pairs(exp_vals)
    else:
        sz = tsize(t)
        exp = [bytes(exp_vals[i * sz:(i + 1) * sz]) for i in range(len(exp_vals) // sz)]
    if idxs is not None:
        exp = [exp[i] for i in idxs]
    if len(got) != len(exp):
        return ['%s: %d values, expected %d' % (where, len(got), len(exp))]
    want = np_dtype(t) if t not in ('str', 'ts') else None
    for k, (g, e) in enumerate(zip(got, exp)):
        if t == 'str':
            if not (isinstance(g, str) and g == e):
                return ['%s[%d]: %r, expected %r' % (where, k, g, e)]
        elif t == 'ts':
            sec, frac = e
            if raw_ts:
                if not (getattr(g, 'seconds', None) == sec and getattr(g, 'second_fractions', None) == frac):
                    return ['%s[%d]: %r, expected TdmsTimestamp(%d, %d)' % (where, k, g, sec, frac)]
            else:
                if not isinstance(g, np.datetime64):
                    return ['%s[%d]: %r is not a datetime64' % (where, k, type(g))]
                m = check_dt64_us_within_one([e], np.array([g], dtype='<M8[us]'), '%s[%d]' % (where, k))
                if np.datetime_data(g.dtype)[0] != 'us':
                    return ['%s[%d]: datetime unit %s, expected us' % (where, k, np.datetime_data(g.dtype)[0])]
                if m:
                    return m
        else:
            a = np.asarray(g)
            if a.shape != () or not dtype_eq(a.dtype, want):
                return ['%s[%d]: scalar of dtype %s shape %s, expected %s' % (where, k, a.dtype, a.shape, want)]
            if le_bytes(a) != e:
                return ['%s[%d]: %s, expected bytes %s' % (where, k, le_bytes(a).hex(), e.hex())]
    return []


class ShortReadStream(io.BytesIO):
    """A seekable stream whose readinto() hands over at most `piece` bytes per call although more are available
    (pipes, sockets and unbuffered files behave like this); read(n) is complete, as the metadata parser expects."""

    def __init__(self, data, piece):
        super().__init__(data)
        self.piece = max(1, piece)

    def readinto(self, buf):
        mv = memoryview(buf).cast('B')
        n = min(len(mv), self.piece)
        if n == 0:
            return 0
        return super().readinto(mv[:n])
