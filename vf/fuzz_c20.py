"""atheris (libFuzzer) target for C20: byte-level fuzzing of TdmsFile APIs under the descriptor-accounting oracle.

Run as:  python -m vf.fuzz_c20 <out_json> <corpus_dir> -runs=N -seed=S [-max_len=..]
The first input byte selects the index-file situation, the rest is the .tdms content.  Exceptions raised by nptdms on
malformed input are expected; only oracle violations (leaked descriptors, closed caller streams, errors from close())
abort the campaign, and the offending input is written to <out_json> as a replayable C20 case.
"""
import json
import os
import sys


def main():
    out_json = sys.argv[1]
    argv = [sys.argv[0]] + sys.argv[2:]
    import atheris
    with atheris.instrument_imports(include=['nptdms']):
        import nptdms      # noqa
        from nptdms import TdmsFile     # noqa
    from vf.harness import Recorder
    from vf.model import to_json
    from props import C20
    stats = {'execs': 0, 'api_raised': 0}

    def one(data):
        if len(data) < 1:
            return
        case = C20.bytes_case(data)
        rec = Recorder('C20')
        rec.begin(case)
        C20.check_bytes(case, rec)
        stats['execs'] += 1
        stats['api_raised'] += int(rec.stats.get('api_calls_raised', 0))
        if stats['execs'] % 25 == 0:
            json.dump({'stats': stats}, open(out_json + '.stats', 'w'))
        if rec.violations:
            json.dump({'violations': {k: {'clause': v['clause'], 'message': v['message'], 'case': json.loads(v['case'])}
                                      for k, v in rec.violations.items()}, 'stats': stats}, open(out_json, 'w'))
            raise RuntimeError('C20 oracle violated: %s' % sorted(rec.violations))

    atheris.Setup(argv, one)
    import atexit
    json.dump({'stats': stats}, open(out_json + '.stats', 'w'))
    atheris.Fuzz()


if __name__ == '__main__':
    main()
