"""Runner machinery: sharding, seed derivation, violation bucketing, shrinking, replay files,
evidence writer, known-findings matching.

A property module (props/Cxx.py) defines

    ID, LEVEL, RULE, ASSUMPTIONS, DESIGN_REF
    jobs(tier)            -> [Job, ...]
    check(case, rec)      -> None      evaluates one case, reports through the Recorder
    (optional) REPLAYS    -> list of committed regression replay files (run first in every tier)

Exit codes of run_property: 0 held (maybe KNOWN-FINDING lines), 1 violation, 2 harness error.
"""
import collections
import hashlib
import json
import multiprocessing
import os
import random
import re
import shutil
import sys
import tempfile
import time
import traceback

from .model import to_json, from_json, case_hash, abbreviate

VERIF_DIR = os.path.dirname(os.path.dirname(os.path.abspath(__file__)))
REPO_DIR = os.environ.get('NPTDMS_REPO', '/repo')
NPROC = int(os.environ.get('VERIF_NPROC', '16'))


class HarnessError(Exception):
    pass


class Job(object):
    """kind: 'hyp'  fn() -> strategy of cases, n = number of examples (sharded)
             'enum' fn(shard, nshards) -> iterator of cases (deterministic partition), exhaustive
             'custom' fn(shard, nshards, seed, rec) -> None, drives rec itself (state machines, fuzzers)"""

    def __init__(self, name, kind, fn, n=0, exhaustive=False, shards=None, check=None, note=''):
        self.name = name
        self.kind = kind
        self.fn = fn
        self.n = n
        self.exhaustive = exhaustive
        self.shards = shards
        self.check = check
        self.note = note


def derive_seed(*parts):
    h = hashlib.sha256(('|'.join(str(p) for p in parts)).encode()).digest()
    return int.from_bytes(h[:8], 'big') % (2 ** 63)


def exc_key(e):
    """Bucket key of an exception: type + innermost frame inside the code under test"""
    tb = e.__traceback__
    inner = None
    while tb is not None:
        fn = tb.tb_frame.f_code.co_filename
        if '/nptdms/' in fn.replace('\\', '/'):
            inner = '%s:%s' % (os.path.basename(fn), tb.tb_frame.f_code.co_name)
        tb = tb.tb_next
    return '%s@%s' % (type(e).__name__, inner or 'outside')


def raised_below_code_under_test(e):
    """True when the exception was raised inside nptdms or in something nptdms called (i.e. after the last frame of the
    verification code): an escape from the code under test, not a harness bug."""
    tb = e.__traceback__
    last_mine = -1
    last_nptdms = -1
    i = 0
    while tb is not None:
        fn = tb.tb_frame.f_code.co_filename.replace('\\', '/')
        if fn.startswith(VERIF_DIR):
            last_mine = i
        elif '/nptdms/' in fn:
            last_nptdms = i
        tb = tb.tb_next
        i += 1
    return last_nptdms > last_mine


CASE_TIMEOUT_S = int(os.environ.get('VERIF_CASE_TIMEOUT', '120'))


class CaseTimeout(BaseException):
    pass


class StopShard(BaseException):
    pass


def _on_alarm(signum, frame):
    raise CaseTimeout()


def run_check(check, case, rec):
    """check(case, rec) with escapes from the code under test turned into violations instead of harness errors, and a
    watchdog: a single case (milliseconds to a few seconds of work) that does not finish within CASE_TIMEOUT_S means the code
    under test does not return."""
    import signal
    use_alarm = hasattr(signal, 'SIGALRM') and CASE_TIMEOUT_S > 0
    if use_alarm:
        try:
            old = signal.signal(signal.SIGALRM, _on_alarm)
            signal.alarm(CASE_TIMEOUT_S)
        except ValueError:          # not in the main thread
            use_alarm = False
    try:
        check(case, rec)
    except CaseTimeout:
        rec.violation('no_result', 'the case did not finish within %d s (the code under test does not return)' % CASE_TIMEOUT_S,
                      key='timeout')
        rec.timeouts = getattr(rec, 'timeouts', 0) + 1
    except Exception as e:      # noqa
        if raised_below_code_under_test(e):
            rec.violation('unguarded_call:raised', describe_exc(e), key=exc_key(e))
        else:
            raise
    finally:
        if use_alarm:
            signal.alarm(0)
            signal.signal(signal.SIGALRM, old)


def describe_exc(e):
    return '%s: %s' % (type(e).__name__, str(e)[:300])


class Recorder(object):
    MAX_SAMPLES = 4

    def __init__(self, prop_id):
        self.prop_id = prop_id
        self.evaluations = 0
        self.nt_hashes = set()
        self.nt_count_distinct_by_construction = 0
        self.labels = collections.Counter()
        self.stats = collections.defaultdict(float)
        self.maxstats = {}
        self.samples = []
        self.violations = {}      # key -> dict(count, clause, message, case(json), size)
        self._case = None
        self._nt = False
        self._labels = None
        self.distinct_by_construction = False
        self.sample_every = 1

    # -- per case ---------------------------------------------------------------------------
    def begin(self, case):
        self._case = case
        self._nt = False
        self._labels = set()

    def nontrivial(self, flag=True):
        if flag:
            self._nt = True

    def label(self, *names):
        for n in names:
            self._labels.add(n)

    def stat(self, name, value=1):
        self.stats[name] += value

    def maxstat(self, name, value):
        if name not in self.maxstats or value > self.maxstats[name]:
            self.maxstats[name] = value

    def violation(self, clause, message, key=None):
        k = clause if key is None else '%s|%s' % (clause, key)
        js = to_json(self._case)
        v = self.violations.get(k)
        if v is None:
            self.violations[k] = {'count': 1, 'clause': clause, 'message': message, 'case': js, 'size': len(js)}
        else:
            v['count'] += 1
            if len(js) < v['size']:
                v.update(message=message, case=js, size=len(js))

    def guard(self, clause, fn, *args, **kw):
        """Run code under test; any exception is a violation of `clause`. Returns (ok, value)"""
        allowed = kw.pop('allowed', ())
        try:
            return True, fn(*args, **kw)
        except allowed as e:
            return False, e
        except Exception as e:      # noqa
            self.violation(clause + ':raised', describe_exc(e), key=exc_key(e))
            return False, e

    def end(self):
        self.evaluations += 1
        for n in self._labels:
            self.labels[n] += 1
        if self._nt:
            if self.distinct_by_construction:
                self.nt_count_distinct_by_construction += 1
            else:
                self.nt_hashes.add(int(case_hash(self._case)[:16], 16))
            if len(self.samples) < self.MAX_SAMPLES and (self.evaluations % self.sample_every == 0):
                self.samples.append(abbreviate(self._case))
        self._case = None

    def result(self):
        return {
            'evaluations': self.evaluations,
            'nt_hashes': self.nt_hashes,
            'nt_dbc': self.nt_count_distinct_by_construction,
            'labels': dict(self.labels),
            'stats': dict(self.stats),
            'maxstats': dict(self.maxstats),
            'samples': self.samples,
            'violations': self.violations,
        }


def _hyp_settings(n):
    from hypothesis import settings, Phase, HealthCheck
    return settings(max_examples=max(1, n), database=None, deadline=None, derandomize=False,
                    phases=[Phase.generate], suppress_health_check=list(HealthCheck),
                    report_multiple_bugs=False)


def _run_shard(args):
    (prop_name, tier, job_index, shard, nshards, seed) = args
    try:
        prop = load_property(prop_name)
        job = prop.jobs(tier)[job_index]
        rec = Recorder(prop.ID)
        rec.sample_every = 1 + shard
        check = job.check or prop.check
        t0 = time.time()
        if job.kind == 'hyp':
            import hypothesis
            from hypothesis import given
            total = job.n
            scale = float(os.environ.get('VERIF_SCALE', '1') or 1)      # mutation campaigns run reduced budgets
            if scale != 1:
                total = max(min(job.n, 32), int(job.n * scale))
            n = total // nshards + (1 if shard < total % nshards else 0)
            if n > 0:
                @hypothesis.seed(derive_seed(seed, prop.ID, job.name, shard))
                @_hyp_settings(n)
                @given(job.fn())
                def t(case):
                    if getattr(rec, 'timeouts', 0) >= 1:
                        raise StopShard()       # a hanging case was found: do not spend the budget on more of them
                    rec.begin(case)
                    run_check(check, case, rec)
                    rec.end()
                try:
                    t()
                except StopShard:
                    pass
        elif job.kind == 'enum':
            rec.distinct_by_construction = True
            for case in job.fn(shard, nshards):
                if getattr(rec, 'timeouts', 0) >= 1:
                    break
                rec.begin(case)
                run_check(check, case, rec)
                rec.end()
        elif job.kind == 'custom':
            job.fn(shard, nshards, derive_seed(seed, prop.ID, job.name, shard), rec)
        else:
            raise HarnessError("unknown job kind %r" % job.kind)
        res = rec.result()
        res['job'] = job.name
        res['wall'] = time.time() - t0
        return res
    except BaseException:       # noqa
        return {'error': traceback.format_exc(), 'job': job_index, 'shard': shard}


_PROP_CACHE = {}


def load_property(name):
    if name not in _PROP_CACHE:
        import importlib
        _PROP_CACHE[name] = importlib.import_module('props.' + name)
    return _PROP_CACHE[name]


def assert_repo_import():
    import nptdms
    f = os.path.realpath(nptdms.__file__)
    if not f.startswith(os.path.realpath(REPO_DIR) + os.sep):
        raise HarnessError("nptdms imported from %s, not from %s" % (f, REPO_DIR))


# ----------------------------------------------------------------------------------------------
# known findings

def load_known_findings():
    path = os.path.join(VERIF_DIR, 'known_findings.txt')
    opens = []
    if os.path.exists(path):
        for line in open(path, encoding='utf-8'):
            line = line.strip()
            if not line or line.startswith('#'):
                continue
            m = re.match(r'open:\s+property=(\S+)\s+key=(\S+)\s+::\s*(.*)$', line)
            if m:
                opens.append({'property': m.group(1), 'key': re.compile(m.group(2)), 'what': m.group(3)})
    return opens


def match_known(opens, prop_id, key):
    for o in opens:
        if o['property'] == prop_id and o['key'].search(key):
            return o
    return None


# ----------------------------------------------------------------------------------------------

def write_replay(prop_id, key, v, seed, tier):
    d = os.path.join(os.environ.get('VERIF_REPLAY_DIR') or os.path.join(VERIF_DIR, 'replays'), prop_id)
    os.makedirs(d, exist_ok=True)
    name = re.sub(r'[^A-Za-z0-9_.-]+', '_', key)[:80] + '_' + hashlib.sha1(key.encode()).hexdigest()[:8] + '.json'
    path = os.path.join(d, name)
    doc = {'property': prop_id, 'clause': v['clause'], 'key': key, 'message': v['message'],
           'case': json.loads(v['case']), 'seed': seed, 'tier': tier, 'tree': repo_describe()}
    with open(path, 'w', encoding='utf-8') as f:
        json.dump(doc, f, indent=1, sort_keys=True)
    return path


def repo_describe():
    try:
        import subprocess
        r = subprocess.run(['git', '-C', REPO_DIR, 'rev-parse', '--short', 'HEAD'], capture_output=True, text=True,
                           timeout=20)
        d = subprocess.run(['git', '-C', REPO_DIR, 'status', '--porcelain', '--untracked-files=no'],
                           capture_output=True, text=True, timeout=20)
        return r.stdout.strip() + ('+dirty' if d.stdout.strip() else '')
    except Exception:       # noqa
        return 'unknown'


def try_shrink(prop, job, check, key, budget_examples, seed, budget_seconds=30):
    """Use hypothesis.find to search for a smaller case that fails in the same bucket"""
    if job is None or job.kind != 'hyp':
        return None
    try:
        import hypothesis
        from hypothesis import settings, HealthCheck

        deadline = time.time() + budget_seconds

        def pred(case):
            if time.time() > deadline:
                return False        # out of budget: stop making progress, keep the best case found so far
            rec = Recorder(prop.ID)
            rec.begin(case)
            run_check(check, case, rec)
            return key in rec.violations
        case = hypothesis.find(job.fn(), pred,
                               settings=settings(max_examples=budget_examples, database=None, deadline=None,
                                                 suppress_health_check=list(HealthCheck)),
                               random=random.Random(seed))
        rec = Recorder(prop.ID)
        rec.begin(case)
        run_check(check, case, rec)
        return rec.violations.get(key)
    except Exception:       # noqa  (NoSuchExample, or anything else: fall back to the recorded case)
        return None


def run_property(prop_name, tier, seed, replay=None):
    t0 = time.time()
    os.environ.setdefault('PYTHONHASHSEED', '0')
    assert_repo_import()
    prop = load_property(prop_name)
    scratch = tempfile.mkdtemp(prefix='vf_%s_' % prop.ID)
    os.environ['VF_SCRATCH'] = scratch
    os.environ['HYPOTHESIS_STORAGE_DIRECTORY'] = os.path.join(scratch, 'hyp')
    try:
        if replay is not None:
            return _run_replay(prop, replay)
        return _run_jobs(prop, prop_name, tier, seed, t0)
    finally:
        shutil.rmtree(scratch, ignore_errors=True)


def _run_replay(prop, path):
    doc = json.load(open(path, encoding='utf-8'))
    case = from_json(json.dumps(doc['case']))
    rec = Recorder(prop.ID)
    rec.begin(case)
    check = prop.check
    jobname = doc.get('job')
    if jobname:
        for j in prop.jobs('quick'):
            if j.name == jobname and j.check:
                check = j.check
    run_check(check, case, rec)
    rec.end()
    if rec.violations:
        for k, v in rec.violations.items():
            print('  violated: %s -- %s' % (k, v['message']))
        print('VIOLATION property=%s replay=%s' % (prop.ID, path))
        return 1
    print('replay %s: property %s holds on this case' % (path, prop.ID))
    return 0


def _run_jobs(prop, prop_name, tier, seed, t0):
    jobs = prop.jobs(tier)
    only = os.environ.get('VERIF_ONLY_JOB')        # debugging aid: run a single job of the check
    tasks = []
    for ji, job in enumerate(jobs):
        if only and job.name != only:
            continue
        nshards = job.shards or NPROC
        if job.kind == 'hyp':
            nshards = max(1, min(nshards, job.n))
        for s in range(nshards):
            tasks.append((prop_name, tier, ji, s, nshards, seed))
    # committed regression replays run first, in-process
    merged = {'evaluations': 0, 'nt': set(), 'nt_dbc': 0, 'labels': collections.Counter(),
              'stats': collections.defaultdict(float), 'maxstats': {}, 'samples': [], 'violations': {},
              'jobs': collections.OrderedDict()}
    replay_results = []
    import glob
    regress = getattr(prop, 'REPLAYS', None)
    if regress is None:
        regress = sorted(os.path.relpath(f, VERIF_DIR)
                         for f in glob.glob(os.path.join(VERIF_DIR, 'replays', 'regress', prop.ID, '*.json')))
    for rp in regress:
        rpath = os.path.join(VERIF_DIR, rp)
        doc = json.load(open(rpath, encoding='utf-8'))
        case = from_json(json.dumps(doc['case']))
        rec = Recorder(prop.ID)
        rec.begin(case)
        check = prop.check
        for j in jobs:
            if j.name == doc.get('job') and j.check:
                check = j.check
        run_check(check, case, rec)
        rec.end()
        replay_results.append({'file': rp, 'violations': sorted(rec.violations)})
        for k, v in rec.violations.items():
            v['job'] = doc.get('job')
            merged['violations'].setdefault(k, v)
        merged['evaluations'] += 1

    ctx = multiprocessing.get_context('fork')
    errors = []
    with ctx.Pool(min(NPROC, max(1, len(tasks)))) as pool:
        for res in pool.imap_unordered(_run_shard, tasks, chunksize=1):
            if 'error' in res:
                errors.append(res['error'])
                continue
            jn = res['job']
            j = merged['jobs'].setdefault(jn, {'evaluations': 0, 'wall_cpu_s': 0.0})
            j['evaluations'] += res['evaluations']
            j['wall_cpu_s'] += res['wall']
            merged['evaluations'] += res['evaluations']
            merged['nt'] |= res['nt_hashes']
            merged['nt_dbc'] += res['nt_dbc']
            merged['labels'].update(res['labels'])
            for k, v in res['stats'].items():
                merged['stats'][k] += v
            for k, v in res['maxstats'].items():
                if k not in merged['maxstats'] or v > merged['maxstats'][k]:
                    merged['maxstats'][k] = v
            if len(merged['samples']) < 6:
                merged['samples'].extend(res['samples'][:2])
            for k, v in res['violations'].items():
                v['job'] = jn
                cur = merged['violations'].get(k)
                if cur is None:
                    merged['violations'][k] = v
                else:
                    cur['count'] += v['count']
                    if v['size'] < cur['size']:
                        cnt = cur['count']
                        cur.update(v)
                        cur['count'] = cnt
    if errors:
        sys.stderr.write('HARNESS ERROR in %d shard(s); first:\n%s\n' % (len(errors), errors[0]))
        return 2

    opens = load_known_findings()
    exit_code = 0
    known_lines = []
    violation_lines = []
    jobs_by_name = {j.name: j for j in jobs}
    nshrunk = 0
    for key in sorted(merged['violations']):
        v = merged['violations'][key]
        o = match_known(opens, prop.ID, key)
        if o is not None:
            known_lines.append('KNOWN-FINDING: property=%s %s [bucket %s, %d case(s) this run]' % (
                prop.ID, o['what'], key, v['count']))
            continue
        job = jobs_by_name.get(v.get('job'))
        if (nshrunk < 3 and os.environ.get('VERIF_NO_SHRINK') != '1' and hasattr(prop, 'shrink')
                and (job is None or job.kind != 'hyp')):
            nshrunk += 1
            try:
                small = prop.shrink(from_json(v['case']), key, (job.check if job and job.check else prop.check),
                                    time.time() + (25 if tier == 'quick' else 240))
                js = to_json(small)
                if len(js) < v['size']:
                    v.update(case=js, size=len(js))
            except Exception:       # noqa
                pass
        elif nshrunk < 3 and os.environ.get('VERIF_NO_SHRINK') != '1':
            nshrunk += 1
            sv = try_shrink(prop, job, (job.check if job and job.check else prop.check), key,
                            600 if tier == 'quick' else 3000, derive_seed(seed, 'shrink', key),
                            budget_seconds=25 if tier == 'quick' else 240)
            if sv is not None and sv['size'] <= v['size']:
                v.update(message=sv['message'], case=sv['case'], size=sv['size'])
        path = write_replay(prop.ID, key, v, seed, tier)
        if job is not None:
            doc = json.load(open(path))
            doc['job'] = job.name
            json.dump(doc, open(path, 'w'), indent=1, sort_keys=True)
        violation_lines.append((key, v, path))
        exit_code = 1

    for k in merged['jobs']:
        merged['jobs'][k]['kind'] = jobs_by_name[k].kind
        merged['jobs'][k]['exhaustive'] = bool(jobs_by_name[k].exhaustive)
        if jobs_by_name[k].note:
            merged['jobs'][k]['note'] = jobs_by_name[k].note
    distinct_nt = len(merged['nt']) + merged['nt_dbc']
    evidence = {
        'property_id': prop.ID,
        'tier': tier,
        'seed': int(seed),
        'level': prop.LEVEL,
        'coverage': {
            'evaluations': int(merged['evaluations']),
            'distinct_nontrivial': int(distinct_nt),
            'rule': prop.RULE,
            'samples': merged['samples'][:6] or ['(no non-trivial sample recorded)'],
            'exhaustive': bool(jobs) and all(j.exhaustive for j in jobs),
            'exhaustive_subdomains': [j.name + (': ' + j.note if j.note else '') for j in jobs if j.exhaustive],
            'jobs': merged['jobs'],
            'classes': dict(sorted(merged['labels'].items())),
            'stats': {k: (int(v) if float(v).is_integer() else v) for k, v in sorted(merged['stats'].items())},
            'max': merged['maxstats'],
            'regression_replays': replay_results,
            'known_findings_seen': known_lines,
            'violation_buckets': [{'key': k, 'count': v['count'], 'message': v['message'], 'replay': p}
                                  for (k, v, p) in violation_lines],
            'tree': repo_describe(),
        },
        'assumptions': list(prop.ASSUMPTIONS),
        'wall_s': round(time.time() - t0, 2),
        'violations': len(violation_lines),
    }
    evdir = os.environ.get('VERIF_EVIDENCE_DIR') or os.path.join(VERIF_DIR, 'evidence')
    os.makedirs(evdir, exist_ok=True)
    with open(os.path.join(evdir, prop.ID + '.json'), 'w', encoding='utf-8') as f:
        json.dump(evidence, f, indent=1, sort_keys=True, default=str)

    print('%s %s seed=%s: %d cases, %d distinct non-trivial, %.1fs' % (
        prop.ID, tier, seed, merged['evaluations'], distinct_nt, time.time() - t0))
    for line in known_lines:
        print(line)
    for (key, v, path) in violation_lines:
        print('  bucket %s (%d cases): %s' % (key, v['count'], v['message']))
        print('VIOLATION property=%s replay=%s' % (prop.ID, os.path.relpath(path, VERIF_DIR)))
    if hasattr(prop, 'post_check'):
        problem = prop.post_check(dict(merged['stats']), dict(merged['labels']))
        if problem:
            sys.stderr.write('HARNESS ERROR: %s\n' % problem)
            return 2 if exit_code == 0 else exit_code
    if exit_code == 0 and distinct_nt < 2:
        sys.stderr.write('HARNESS ERROR: fewer than 2 distinct non-trivial cases generated\n')
        return 2
    return exit_code
