"""Write programs for TdmsWriter (C07, C08, C16, C09-writer-index, C10): strategies, materialisation
into nptdms objects, and the dictionary model of what the program wrote.

program = {'version': 4712|4713, 'dest': 'path'|'stream', 'index': False|True|'stream',
           'sessions': [[call, ...], ...]}            first session mode 'w', later sessions 'a'
call    = [obj, ...]
obj     = {'kind': 'root', 'props': [...]}
        | {'kind': 'group', 'group': g, 'props': [...]}
        | {'kind': 'channel', 'group': g, 'channel': c, 'form': FORM, 'values': ..., 'props': [...]}
FORM    = 'nd:<dtype>' (values = LE bytes; dtype in i1..u8,f4,f8,?,c8,c16), 'nd:<dtype>:strided',
          'nd:M8[us]' / 'nd:M8[s]' (values = list of int ticks), 'list:int:<dtype>', 'list:float', 'list:str',
          'nd:O:str', 'list:bool', 'list:datetime' (values = list of int microseconds since 1904),
          'gen:<dtype>' (dtype as for nd, or M8[us]; values = [n, mult, add]: a long array given by a formula, see gen_array)
program keys added later (all optional): 'container' = 'list' | 'tuple' | 'iterator' (what write_segment receives); 'prelude' = calls written to the same path by an EARLIER writer in mode 'w' (the file
          is then overwritten by the program's first session); 'reuse_writer' = one TdmsWriter(path, mode='a') object is
          entered once per session instead of a new writer per session.
prop    = [name, kind, value]    kinds: int float bool npbool str datetime dt64:<unit> tdmsts np:<dtype> wrap:<Type>
"""
import datetime as _dt
import struct
from collections import OrderedDict

import numpy as np
from hypothesis import strategies as st

from .model import make_path, INT_RANGES

ND_DTYPES = ['i1', 'i2', 'i4', 'i8', 'u1', 'u2', 'u4', 'u8', 'f4', 'f8', '?', 'c8', 'c16']
DTYPE_TO_T = {'i1': 'i8', 'i2': 'i16', 'i4': 'i32', 'i8': 'i64', 'u1': 'u8', 'u2': 'u16', 'u4': 'u32', 'u8': 'u64',
              'f4': 'f32', 'f8': 'f64', '?': 'bool', 'c8': 'c64', 'c16': 'c128'}
T_CODE = {'i8': 1, 'i16': 2, 'i32': 3, 'i64': 4, 'u8': 5, 'u16': 6, 'u32': 7, 'u64': 8, 'f32': 9, 'f64': 10,
          'str': 0x20, 'bool': 0x21, 'ts': 0x44, 'c64': 0x08000c, 'c128': 0x10000d}
T_SIZE = {'i8': 1, 'i16': 2, 'i32': 4, 'i64': 8, 'u8': 1, 'u16': 2, 'u32': 4, 'u64': 8, 'f32': 4, 'f64': 8, 'bool': 1,
          'c64': 8, 'c128': 16}
INT_LIST_PIN = {'i1': None, 'u1': 200, 'i2': -200, 'u2': 40000, 'i4': -40000, 'u4': 3 * 10 ** 9,
                'i8': -3 * 10 ** 9, 'u8': 2 ** 63 + 5}
INT_DT_RANGE = {'i1': INT_RANGES['i8'], 'i2': INT_RANGES['i16'], 'i4': INT_RANGES['i32'], 'i8': INT_RANGES['i64'],
                'u1': INT_RANGES['u8'], 'u2': INT_RANGES['u16'], 'u4': INT_RANGES['u32'], 'u8': INT_RANGES['u64']}
WRAPPERS = ['Int8', 'Int16', 'Int32', 'Int64', 'Uint8', 'Uint16', 'Uint32', 'Uint64', 'SingleFloat', 'DoubleFloat',
            'String', 'Boolean']
WRAP_T = {'Int8': 'i8', 'Int16': 'i16', 'Int32': 'i32', 'Int64': 'i64', 'Uint8': 'u8', 'Uint16': 'u16', 'Uint32': 'u32',
          'Uint64': 'u64', 'SingleFloat': 'f32', 'DoubleFloat': 'f64', 'String': 'str', 'Boolean': 'bool'}
EPOCH = _dt.datetime(1904, 1, 1)
US_MIN = -5 * 10 ** 16          # ~ year 320
US_MAX = 2 * 10 ** 17           # ~ year 8240

NAMES = st.one_of(
    st.sampled_from(['g', 'Group', 'c', 'a b', "it's", 'x/y', "'", '/', '', "''", "'/'", "a'/'b", 'é', '日本', ' ', 'g\x00h',
                     "/'g'", "'g'/'c'", 'TDSm', 'xTDSmx', 'TDSh', 'G', 'C', 'É']),
    st.text(max_size=8))
TEXT = st.one_of(st.sampled_from(['', 'abc', 'µ unit', "q'q", 'line\nbreak', '𝄞𝄞', 'x' * 50, 'TDSm', 'aTDSmTDSh']), st.text(max_size=10))
INT_BOUNDARY = [0, 1, -1, 2 ** 31 - 1, 2 ** 31, -2 ** 31, -2 ** 31 - 1, 2 ** 63 - 1, 2 ** 63, -2 ** 63, 2 ** 64 - 1,
                2 ** 32, 2 ** 15, 255, 256]


@st.composite
def us_value(draw):
    return draw(st.one_of(st.sampled_from([0, 1, -1, 999999, 3524551547000016, -500000, 16, 1000001,
                                           9025516800000001, 18808761296123457, -9591955077000003]),
                          st.integers(-5 * 10 ** 15, 5 * 10 ** 15), st.integers(US_MIN, US_MAX)))


@st.composite
def prop(draw):
    name = draw(st.one_of(st.sampled_from(['p', 'q', 'unit_string', 'wf_increment', 'NI_x', '', 'name', 'path', 'wf_start_time',
                                            'wf_samples', 'P']), NAMES))
    kind = draw(st.sampled_from(['int', 'int', 'float', 'bool', 'npbool', 'str', 'datetime', 'dt64:us', 'dt64:ms',
                                 'dt64:s', 'dt64:ns', 'tdmsts', 'np', 'wrap']))
    if kind == 'int':
        v = draw(st.one_of(st.sampled_from(INT_BOUNDARY), st.integers(-2 ** 63, 2 ** 64 - 1)))
    elif kind == 'float':
        v = draw(st.floats(allow_nan=True, allow_infinity=True))
    elif kind in ('bool', 'npbool'):
        v = draw(st.booleans())
    elif kind == 'str':
        v = draw(TEXT)
    elif kind in ('datetime', 'dt64:us'):
        v = draw(us_value())
    elif kind == 'dt64:ns':
        # nanosecond unit, value a whole number of microseconds inside the datetime64[ns] range (years 1678-2262)
        v = draw(st.one_of(st.sampled_from([0, 1, -1, 999999, 3524551547000016]), st.integers(-7 * 10 ** 15, 11 * 10 ** 15 + 2 * 10 ** 14)))
    elif kind == 'dt64:ms':
        v = draw(us_value()) // 1000
    elif kind == 'dt64:s':
        v = draw(us_value()) // 10 ** 6
    elif kind == 'tdmsts':
        v = [draw(st.integers(-2 ** 40, 2 ** 40)), draw(st.one_of(st.sampled_from([0, 1, 2 ** 63, 2 ** 64 - 1]),
                                                                  st.integers(0, 2 ** 64 - 1)))]
    elif kind == 'np':
        dt = draw(st.sampled_from(['i1', 'i2', 'i4', 'i8', 'u1', 'u2', 'u4', 'u8', 'f4', 'f8']))
        kind = 'np:' + dt
        if dt[0] in 'iu':
            lo, hi = INT_DT_RANGE[dt]
            v = draw(st.one_of(st.sampled_from([lo, hi, 0]), st.integers(lo, hi)))
        else:
            v = draw(st.floats(allow_nan=True, allow_infinity=True, width=32 if dt == 'f4' else 64))
    else:
        w = draw(st.sampled_from(WRAPPERS))
        kind = 'wrap:' + w
        t = WRAP_T[w]
        if t in INT_RANGES:
            lo, hi = INT_RANGES[t]
            v = draw(st.one_of(st.sampled_from([lo, hi, 0]), st.integers(lo, hi)))
        elif t in ('f32', 'f64'):
            v = draw(st.floats(allow_nan=True, allow_infinity=True, width=32 if t == 'f32' else 64))
        elif t == 'str':
            v = draw(TEXT)
        else:
            v = draw(st.booleans())
    return [name, kind, v]


@st.composite
def props(draw, max_props=3):
    ps = draw(st.lists(prop(), max_size=max_props))
    seen = set()
    out = []
    for p in ps:
        if p[0] not in seen:
            seen.add(p[0])
            out.append(p)
    return out


FORMS = (['nd:' + d for d in ND_DTYPES] + ['nd:f8:strided', 'nd:i2:strided', 'nd:M8[us]', 'nd:M8[s]', 'nd:M8[ns]', 'nd:M8[ms]', 'list:float',
                                            'list:str', 'nd:O:str', 'list:bool', 'list:datetime'] +
         ['list:int:' + d for d in INT_LIST_PIN])


@st.composite
def channel_values(draw, form, max_len=6):
    parts = form.split(':')
    if parts[0] == 'nd' and parts[1] in ND_DTYPES:
        n = draw(st.integers(0, max_len))
        size = np.dtype(parts[1]).itemsize
        if parts[1] == '?':
            return bytes(b & 1 for b in draw(st.binary(min_size=n, max_size=n)))
        return draw(st.binary(min_size=n * size, max_size=n * size))
    n = draw(st.integers(1, max_len))
    if form in ('nd:M8[us]', 'list:datetime'):
        return [draw(us_value()) for _ in range(n)]
    if form == 'nd:M8[s]':
        return [draw(us_value()) // 10 ** 6 for _ in range(n)]
    if form == 'nd:M8[ms]':
        return [draw(us_value()) // 1000 for _ in range(n)]
    if form == 'nd:M8[ns]':
        # values in microseconds (whole), materialised in nanosecond unit; datetime64[ns] covers the years 1678-2262 only
        return [draw(st.one_of(st.sampled_from([0, 1, -1, 999999, 3524551547000016]), st.integers(-7 * 10 ** 15, 11 * 10 ** 15 + 2 * 10 ** 14)))
                for _ in range(n)]
    if form == 'list:float':
        return [draw(st.floats(allow_nan=True, allow_infinity=True)) for _ in range(n)]
    if form in ('list:str', 'nd:O:str'):
        return [draw(TEXT) for _ in range(n)]
    if form == 'list:bool':
        return [draw(st.booleans()) for _ in range(n)]
    if parts[:2] == ['list', 'int']:
        dt = parts[2]
        lo, hi = INT_DT_RANGE[dt]
        vals = [draw(st.one_of(st.sampled_from([lo, hi, 0]), st.integers(lo, hi))) for _ in range(n)]
        pin = INT_LIST_PIN[dt]
        if dt == 'i1':
            # int8 is the fall-through bracket: keep it there
            vals = [v if not (v >= 0 and False) else v for v in vals]
            if max(vals) >= 2 ** 7 - 0 and min(vals) >= 0:
                pass
        if pin is not None:
            vals.insert(draw(st.integers(0, len(vals))), pin)
        return vals
    raise KeyError(form)


@st.composite
def program(draw, max_sessions=2, max_calls=3, max_objs=4, forms=None, names=None, max_len=6, index=None):
    forms = forms or FORMS
    names = names or NAMES
    groups = draw(st.lists(names, min_size=1, max_size=3, unique=True))
    nch = draw(st.integers(1, 4))
    chans = []
    seen = set()
    for _ in range(nch):
        g = draw(st.sampled_from(groups))
        c = draw(names)
        if (g, c) in seen:
            continue
        seen.add((g, c))
        chans.append((g, c, draw(st.sampled_from(forms))))
    dest = draw(st.sampled_from(['path', 'stream']))
    if index is None:
        index = draw(st.sampled_from([False, True]))
    if index and dest == 'stream':
        index = 'stream'
    nsess = draw(st.integers(1, max_sessions))
    sessions = []
    for _s in range(nsess):
        calls = []
        for _c in range(draw(st.integers(0 if (_s or nsess > 1) else 1, max_calls))):
            objs = []
            used = set()
            for _o in range(draw(st.integers(0, max_objs))):
                kind = draw(st.sampled_from(['channel', 'channel', 'channel', 'group', 'root']))
                if kind == 'root':
                    if '/' in used:
                        continue
                    used.add('/')
                    objs.append({'kind': 'root', 'props': draw(props())})
                elif kind == 'group':
                    g = draw(st.sampled_from(groups))
                    if make_path(g) in used:
                        continue
                    used.add(make_path(g))
                    objs.append({'kind': 'group', 'group': g, 'props': draw(props())})
                else:
                    g, c, form = draw(st.sampled_from(chans))
                    if make_path(g, c) in used:
                        continue
                    used.add(make_path(g, c))
                    objs.append({'kind': 'channel', 'group': g, 'channel': c, 'form': form,
                                 'values': draw(channel_values(form, max_len)), 'props': draw(props(2))})
            calls.append(objs)
            if draw(st.integers(0, 9)) == 0:
                # a call the writer must reject without emitting anything: duplicate object path / unsupported property value
                bad = [dict(o) for o in objs]
                if draw(st.booleans()) or not bad:
                    g, c, form = draw(st.sampled_from(chans))
                    vals = draw(channel_values(form, 2))
                    bad = bad + [{'kind': 'channel', 'group': g, 'channel': c, 'form': form, 'values': vals, 'props': []},
                                 {'kind': 'channel', 'group': g, 'channel': c, 'form': form, 'values': vals, 'props': []}]
                    if draw(st.booleans()):
                        bad.append({'kind': 'group', 'group': draw(names), 'props': []})
                else:
                    bad[0] = dict(bad[0], props=list(bad[0].get('props') or []) + [['bad_value', 'unsupported', None]])
                calls.append({'rejected': bad})
        sessions.append(calls)
    prog = {'version': draw(st.sampled_from([4712, 4713])), 'dest': dest, 'index': index, 'sessions': sessions,
            'rewrite': draw(st.sampled_from([None, None, 'one_segment', 'segment_per_object'])),
            'reuse_objects': draw(st.integers(0, 3)) == 0}
    # how the objects of a call are handed to write_segment: the documented list, or another iterable the writer accepts
    prog['container'] = draw(st.sampled_from(['list', 'list', 'list', 'tuple', 'iterator']))
    if dest == 'path':
        # the data file need not be called *.tdms
        prog['file_name'] = draw(st.sampled_from(['prog.tdms', 'prog.tdms', 'prog.tdms', 'prog.dat', 'prog', 'prog.TDMS',
                                                  'a.b.tdms', 'prog.tdms.bak']))
    if dest == 'path':
        how = draw(st.sampled_from([None, None, 'prelude', 'reuse_writer']))
        if how == 'prelude':
            # the path already holds a file written by an earlier writer (same groups and channels): mode 'w' replaces it
            g, c, form = draw(st.sampled_from(chans))
            prog['prelude'] = [[{'kind': 'group', 'group': g, 'props': draw(props(1))},
                                {'kind': 'channel', 'group': g, 'channel': c, 'form': form,
                                 'values': draw(channel_values(form, 3)), 'props': draw(props(1))}]] * draw(st.integers(1, 2))
        elif how == 'reuse_writer':
            prog['reuse_writer'] = True
    return prog


BLOCKS = [512, 1024, 2048, 4096, 8192, 16384, 32768, 65536]


@st.composite
def big_program(draw, index=None):
    """programs writing LONG arrays whose lengths sit on and around powers of two (buffered / blocked output paths), next to
    a short string channel whose position in the file depends on the long channel's byte count"""
    dest = draw(st.sampled_from(['path', 'stream', 'stream']))
    if index is None:
        index = draw(st.sampled_from([False, True]))
    if index and dest == 'stream':
        index = 'stream'
    dtypes = ['i1', 'i2', 'i4', 'i8', 'u1', 'u2', 'u4', 'u8', 'f4', 'f8', '?', 'c8', 'c16', 'M8[us]', 'str']
    sessions = []
    chan_dt = [draw(st.sampled_from(dtypes)) for _k in range(2)]       # one data type per channel
    tail = draw(st.sampled_from(['list:str', 'nd:i2', None]))
    for _s in range(draw(st.integers(1, 2))):
        calls = []
        for _c in range(draw(st.integers(1, 2))):
            objs = []
            for k in range(draw(st.integers(1, 2))):
                dt = chan_dt[k]
                size = 16 if dt == 'M8[us]' else 8 if dt == 'str' else np.dtype(dt).itemsize
                n = draw(st.sampled_from(BLOCKS)) * draw(st.sampled_from([1, 1, 2, 3])) + draw(st.sampled_from([-1, 0, 0, 0, 1]))
                while n * size > 1200000:
                    n = (n + 1) // 2
                objs.append({'kind': 'channel', 'group': 'big', 'channel': 'long%d' % k, 'form': 'gen:' + dt,
                             'values': [n, draw(st.integers(1, 126)), draw(st.integers(0, 126))], 'props': []})
            if tail == 'list:str':
                objs.append({'kind': 'channel', 'group': 'big', 'channel': 'tail', 'form': tail,
                             'values': draw(st.lists(TEXT, min_size=1, max_size=3)), 'props': draw(props(1))})
            elif tail:
                objs.append({'kind': 'channel', 'group': 'big', 'channel': 'tail', 'form': tail,
                             'values': draw(st.binary(min_size=2, max_size=6).map(lambda b: b[:len(b) // 2 * 2])), 'props': []})
            calls.append(objs)
        sessions.append(calls)
    return {'version': draw(st.sampled_from([4712, 4713])), 'dest': dest, 'index': index, 'sessions': sessions,
            'rewrite': None, 'reuse_objects': False}


@st.composite
def wide_program(draw):
    """few calls, each with hundreds of channel objects in a handful of groups, and objects carrying hundreds of properties"""
    ngroups = draw(st.integers(1, 6))
    nch = draw(st.integers(100, 320))
    form = draw(st.sampled_from(['nd:i2', 'nd:f4', 'list:str', 'nd:u1']))
    calls = []
    for ci in range(draw(st.integers(1, 2))):
        objs = [{'kind': 'root', 'props': [['rp%d' % i, 'int', i * 7 - 3] for i in range(draw(st.sampled_from([0, 5, 300])))]}]
        for g in range(ngroups):
            objs.append({'kind': 'group', 'group': 'grp%d' % g,
                         'props': [['gp%d' % i, 'str', 'v%d.%d' % (g, i)] for i in range(draw(st.sampled_from([0, 2, 120])))]})
        order = list(range(nch))
        if ci and draw(st.booleans()):
            order = order[::-1]
        for k in order:
            if form == 'list:str':
                vals = ['s%d.%d' % (k, ci)]
            else:
                size = np.dtype(form[3:]).itemsize
                vals = bytes((k * 5 + ci + j) % 251 for j in range(size * (1 + k % 3)))
            objs.append({'kind': 'channel', 'group': 'grp%d' % (k % ngroups), 'channel': 'ch%d' % k, 'form': form,
                         'values': vals, 'props': [['cp', 'int', k]] if k % 17 == 0 else []})
        calls.append(objs)
    return {'version': draw(st.sampled_from([4712, 4713])), 'dest': draw(st.sampled_from(['path', 'stream'])),
            'index': False, 'sessions': [calls], 'rewrite': None, 'reuse_objects': False}


@st.composite
def many_segment_program(draw):
    """100-140 write_segment calls in one session: channels a and b get equally long arrays in every call up to a call
    k >= 97, after which their lengths differ (readers that summarise per-segment lengths must not mix the two up)"""
    ncalls = draw(st.sampled_from([100, 101, 102, 110, 128, 140]))
    k = draw(st.integers(97, ncalls - 1))
    form = draw(st.sampled_from(['nd:i2', 'nd:f8', 'nd:u1', 'list:str']))
    order_flip = draw(st.integers(0, 3))
    calls = []
    for i in range(ncalls):
        na = draw(st.integers(1, 2)) if i in (0, k, ncalls - 1) else 1
        nb = na if i < k else (na + 1 if i == k else draw(st.integers(0, 2)))
        objs = []
        for (c, n) in (('a', na), ('b', nb)):
            if form == 'list:str':
                if n == 0:
                    continue
                vals = ['%s%d.%d' % (c, i, j) for j in range(n)]
            else:
                size = np.dtype(form[3:]).itemsize
                vals = bytes((i * 7 + j * 3 + ord(c)) % 251 for j in range(n * size))
            objs.append({'kind': 'channel', 'group': 'g', 'channel': c, 'form': form, 'values': vals, 'props': []})
        if order_flip and i >= k and i % order_flip == 0:
            objs = objs[::-1]
        calls.append(objs)
    return {'version': 4713, 'dest': draw(st.sampled_from(['path', 'stream'])), 'index': False, 'sessions': [calls],
            'rewrite': None, 'reuse_objects': False}


# ----------------------------------------------------------------------------------------------
# materialisation

def us_to_datetime(us):
    return EPOCH + _dt.timedelta(microseconds=us)


def us_to_dt64(us, unit='us'):
    base = np.datetime64('1904-01-01T00:00:00', unit)
    return base + np.timedelta64(us, unit)


def prop_python_value(kind, v):
    from nptdms import types
    from nptdms.timestamp import TdmsTimestamp
    if kind == 'unsupported':
        return object()
    if kind in ('int', 'float', 'bool', 'str'):
        return v
    if kind == 'npbool':
        return np.bool_(v)
    if kind == 'datetime':
        return us_to_datetime(v)
    if kind == 'dt64:ns':
        return us_to_dt64(v).astype('datetime64[ns]')
    if kind.startswith('dt64:'):
        return us_to_dt64(v, kind[5:])
    if kind == 'tdmsts':
        return TdmsTimestamp(v[0], v[1])
    if kind.startswith('np:'):
        return np.dtype(kind[3:]).type(v)
    if kind.startswith('wrap:'):
        return getattr(types, kind[5:])(v)
    raise KeyError(kind)


def expected_prop(kind, v):
    """(type name, comparable expected value) of a property after reading the file back"""
    if kind == 'int':
        if v >= 2 ** 63:
            return 'u64', v
        if v >= 2 ** 31 or v < -2 ** 31:
            return 'i64', v
        return 'i32', v
    if kind == 'float':
        return 'f64', float(v)
    if kind in ('bool', 'npbool'):
        return 'bool', bool(v)
    if kind == 'str':
        return 'str', v
    if kind == 'datetime' or kind == 'dt64:us' or kind == 'dt64:ns':
        return 'ts', ('us', v)
    if kind == 'dt64:ms':
        return 'ts', ('us', v * 1000)
    if kind == 'dt64:s':
        return 'ts', ('us', v * 10 ** 6)
    if kind == 'tdmsts':
        return 'ts', ('raw', tuple(v))
    if kind.startswith('np:'):
        dt = kind[3:]
        t = DTYPE_TO_T[dt]
        if dt == 'f4':
            return t, float(np.float32(v))
        return t, (float(v) if dt == 'f8' else int(v))
    if kind.startswith('wrap:'):
        t = WRAP_T[kind[5:]]
        if t == 'f32':
            return t, float(np.float32(v))
        if t == 'f64':
            return t, float(v)
        if t == 'bool':
            return t, bool(v)
        return t, v
    raise KeyError(kind)


def gen_array(dtype, n, mult, add):
    """deterministic long array: value i = ((i * mult + add) mod 127), halved for floats, microsecond ticks for M8[us]"""
    base = (np.arange(n, dtype=np.int64) * mult + add) % 127
    if dtype == 'str':
        return ['s%d' % v + 'x' * (int(v) % 3) for v in (np.arange(n, dtype=np.int64) * mult + add) % 997]
    if dtype == 'M8[us]':
        return base * 1000003 + add
    if dtype in ('f4', 'f8'):
        return (base * 0.5).astype(np.dtype(dtype))
    if dtype in ('c8', 'c16'):
        return (base + 1j * (base % 5)).astype(np.dtype(dtype))
    if dtype == '?':
        return (base % 2).astype(np.dtype('?'))
    return base.astype(np.dtype(dtype))


def channel_array(form, values):
    """the object handed to ChannelObject(data=...)"""
    parts = form.split(':')
    if parts[0] == 'gen':
        arr = gen_array(parts[1], *values)
        if parts[1] == 'M8[us]':
            return np.datetime64('1904-01-01T00:00:00', 'us') + arr.astype('timedelta64[us]')
        return arr              # (a list of str for gen:str)
    if parts[0] == 'nd' and parts[1] in ND_DTYPES:
        arr = np.frombuffer(bytes(values), dtype=np.dtype(parts[1])).copy()
        if len(parts) > 2 and parts[2] == 'strided':
            wide = np.zeros(len(arr) * 2, dtype=arr.dtype)
            wide[::2] = arr
            return wide[::2]
        return arr
    if form == 'nd:M8[us]':
        return np.array([us_to_dt64(v) for v in values], dtype='datetime64[us]')
    if form == 'nd:M8[s]':
        return np.array([us_to_dt64(v, 's') for v in values], dtype='datetime64[s]')
    if form == 'nd:M8[ms]':
        return np.array([us_to_dt64(v, 'ms') for v in values], dtype='datetime64[ms]')
    if form == 'nd:M8[ns]':
        return np.array([us_to_dt64(v) for v in values], dtype='datetime64[us]').astype('datetime64[ns]')
    if form == 'list:datetime':
        return [us_to_datetime(v) for v in values]
    if form == 'nd:O:str':
        a = np.empty((len(values),), dtype=object)
        for i, s in enumerate(values):
            a[i] = s
        return a
    return list(values)


def expected_channel(form, values):
    """(type name or None for 'values only', list/bytes of expected values) for one write"""
    parts = form.split(':')
    if parts[0] == 'gen':
        arr = gen_array(parts[1], *values)
        if parts[1] == 'str':
            return 'str', list(arr)
        if parts[1] == 'M8[us]':
            return 'ts', [int(v) for v in arr]
        return DTYPE_TO_T[parts[1]], arr.astype(arr.dtype.newbyteorder('<')).tobytes()
    if parts[0] == 'nd' and parts[1] in ND_DTYPES:
        return DTYPE_TO_T[parts[1]], bytes(values)
    if form in ('nd:M8[us]', 'list:datetime', 'nd:M8[ns]'):
        return 'ts', list(values)
    if form == 'nd:M8[s]':
        return 'ts', [v * 10 ** 6 for v in values]
    if form == 'nd:M8[ms]':
        return 'ts', [v * 1000 for v in values]
    if form in ('list:str', 'nd:O:str'):
        return 'str', list(values)
    if form == 'list:float':
        return 'f64', struct.pack('<%dd' % len(values), *values)
    if form == 'list:bool':
        return 'intlist', [int(v) for v in values]
    return 'intlist', list(values)


def _set_props(obj, pd, pool):
    """new properties for a re-used writer object: alternately by mutating its properties dict in place and by rebinding it"""
    pool['_n'] = pool.get('_n', 0) + 1
    if pool['_n'] % 2 and isinstance(obj.properties, dict):
        obj.properties.clear()
        obj.properties.update(pd)
    else:
        obj.properties = pd


def build_objects(call, pool=None):
    """nptdms objects for one write_segment call.  With a `pool` (dict), group and channel objects are RE-USED between calls,
    as an acquisition loop would do: the same GroupObject / ChannelObject instance gets new names, data (in place when the
    shape and dtype allow it) and properties before it is written again."""
    from nptdms import RootObject, GroupObject, ChannelObject
    objs = []
    used = set()
    for o in call:
        pd = OrderedDict((n, prop_python_value(k, v)) for (n, k, v) in o.get('props') or [])
        if o['kind'] == 'root':
            objs.append(RootObject(pd))
        elif o['kind'] == 'group':
            key = ('group', len([1 for u in used if u[0] == 'group']))
            used.add(key)
            if pool is not None and key in pool:
                g = pool[key]
                g.group = o['group']
                _set_props(g, pd, pool)
            else:
                g = GroupObject(o['group'], pd)
                if pool is not None:
                    pool[key] = g
            objs.append(g)
        else:
            arr = channel_array(o['form'], o['values'])
            key = ('channel', o['form'], len([1 for u in used if u[0] == 'channel' and u[1] == o['form']]))
            used.add(key)
            if pool is not None and key in pool:
                ch = pool[key]
                ch.group = o['group']
                ch.channel = o['channel']
                _set_props(ch, pd, pool)
                new = ChannelObject(o['group'], o['channel'], arr, pd).data
                old = ch.data
                if (isinstance(old, np.ndarray) and isinstance(new, np.ndarray) and old.shape == new.shape
                        and old.dtype == new.dtype and old.flags.writeable):
                    old[...] = new              # same buffer, new contents
                else:
                    ch.data = new
            else:
                ch = ChannelObject(o['group'], o['channel'], arr, pd)
                if pool is not None:
                    pool[key] = ch
            objs.append(ch)
    return objs


class ProgramModel(object):
    """dictionary model: path -> props (last wins) ; channel path -> list of (type, values) writes"""

    def __init__(self):
        self.props = OrderedDict()      # path -> OrderedDict name -> (type, value)
        self.writes = OrderedDict()     # channel path -> [(type, values)]
        self.order = []                 # (group, channel) in order of first write
        self.groups = []
        self.rejected_calls = 0

    def add_call(self, call):
        for o in call:
            if o['kind'] == 'root':
                p = '/'
            elif o['kind'] == 'group':
                p = make_path(o['group'])
            else:
                p = make_path(o['group'], o['channel'])
                if p not in self.writes:
                    self.writes[p] = []
                    self.order.append((o['group'], o['channel']))
                self.writes[p].append(expected_channel(o['form'], o['values']))
            d = self.props.setdefault(p, OrderedDict())
            for (n, k, v) in o.get('props') or []:
                d[n] = expected_prop(k, v)


def run_program(prog, workdir):
    """Execute the program with TdmsWriter.  Returns dict(data=bytes, index=bytes|None, model=ProgramModel,
    accepted=bool, error=exception|None, path=str|None)"""
    import io
    import os
    from nptdms import TdmsWriter
    model = ProgramModel()
    path = os.path.join(workdir, prog.get('file_name') or 'prog.tdms') if prog['dest'] == 'path' else None
    stream = io.BytesIO() if path is None else None
    istream = io.BytesIO() if prog['index'] == 'stream' else None
    first = True
    pool = {} if prog.get('reuse_objects') else None
    if prog.get('prelude') and path is not None:
        with TdmsWriter(path, mode='w', version=prog['version'], index_file=bool(prog['index'])) as w0:
            for call in prog['prelude']:
                w0.write_segment(build_objects(call))
    shared = None
    if prog.get('reuse_writer') and path is not None:
        shared = TdmsWriter(path, mode='a', version=prog['version'], index_file=bool(prog['index']))
    for calls in prog['sessions']:
        if shared is not None:
            w = shared
        elif path is not None:
            w = TdmsWriter(path, mode='w' if first else 'a', version=prog['version'], index_file=bool(prog['index']))
        else:
            w = TdmsWriter(stream, version=prog['version'], index_file=istream if istream is not None else False)
        first = False
        with w:
            for call in calls:
                if isinstance(call, dict):
                    # deliberately unacceptable call: must be rejected, emits nothing, the session goes on
                    try:
                        w.write_segment(build_objects(call['rejected']))
                    except Exception:       # noqa
                        model.rejected_calls += 1
                        continue
                    return {'accepted': False, 'error': RuntimeError('call expected to be rejected was accepted'),
                            'model': model}
                try:
                    objs = build_objects(call, pool)
                    kind = prog.get('container', 'list')
                    w.write_segment(tuple(objs) if kind == 'tuple' else iter(objs) if kind == 'iterator' else objs)
                except Exception as e:      # noqa  a call the writer does not accept: program is outside the domain
                    return {'accepted': False, 'error': e, 'model': model}
                model.add_call(call)
    if path is not None:
        data = open(path, 'rb').read()
        # the index of <path> is <path>_index (the name the reader looks for), whatever the extension of <path>
        index = None
        if prog['index']:
            index = open(path + '_index', 'rb').read() if os.path.exists(path + '_index') else b''
    else:
        data = stream.getvalue()
        index = istream.getvalue() if istream is not None else None
    return {'accepted': True, 'error': None, 'model': model, 'data': data, 'index': index, 'path': path}
