"""Independent TDMS encoder (written from the NI TDMS file layout; no nptdms code).

A file spec is {'segments': [seg, ...]}.  A segment spec:

    be          bool   big-endian segment
    interleaved bool
    version     int    (default 4713)
    meta        bool   metadata block present (default True)
    newlist     bool   kTocNewObjList (default True)
    entries     list   metadata entries in order: {'path', 'hdr', 'props', ...}
                       hdr 'full'  : 'type', 'n' (values per chunk) [, 'total' bytes per chunk for str]
                       hdr 'same'  : raw index 0x00000000
                       hdr 'nodata': raw index 0xFFFFFFFF
                       hdr 'daqmx' : 'kind' fc|dl, 'chan_type' 'raw'|type, 'n', 'scalers', 'widths'
                       props: [[name, ptype, value], ...]
    pad         int    extra bytes between metadata and raw data (default 0)
    active      list   [[path, type, n], ...] data objects of this segment in raw-data order
                       (computed by the caller / tracker; for daqmx: [[path, 'daqmx', n]])
    nchunks     int
    data        dict   path -> [chunk, ...]   chunk = LE canonical bytes | [str, ...]
    buffers     list   (daqmx) per chunk: [bytes of buffer 0, bytes of buffer 1, ...]
    marker      bool   write 0xFFFFFFFFFFFFFFFF as next segment offset
    raw_flag    bool|None  force kTocRawData (None: set iff raw bytes > 0)
    daqmx_flag  bool|None  force kTocDAQmxRawData (None: set iff segment has daqmx data objects)
    trim_raw    int    drop this many bytes from the end of the raw data; the lead-in states the shortened size (a segment
                       whose last chunk is incomplete, e.g. after an interrupted write that was later appended to)
"""
import struct

from .model import (TYPES, PROP_TYPES, TOC_META, TOC_NEWLIST, TOC_RAW, TOC_INTERLEAVED, TOC_BIGENDIAN,
                    TOC_DAQMX, DAQMX_FORMAT_CHANGING, DAQMX_DIGITAL_LINE, DAQMX_SCALER_TYPES,
                    swap_bytes, tsize, str_chunk_bytes)


def _u32(v, e):
    return struct.pack(e + 'I', v)


def _u64(v, e):
    return struct.pack(e + 'Q', v)


def _string(s, e):
    b = s.encode('utf-8')
    return _u32(len(b), e) + b


def encode_prop_value(ptype, value, e):
    if ptype == 'str':
        return _string(value, e)
    if ptype == 'bool':
        return b'\x01' if value else b'\x00'
    if ptype == 'ts':
        sec, frac = value
        if e == '<':
            return struct.pack('<Qq', frac, sec)
        return struct.pack('>qQ', sec, frac)
    if ptype in ('f32', 'f64'):
        # value given as LE canonical bytes so that NaN payloads survive
        if isinstance(value, (bytes, bytearray)):
            return bytes(value) if e == '<' else bytes(value)[::-1]
        return struct.pack(e + PROP_TYPES[ptype], value)
    return struct.pack(e + PROP_TYPES[ptype], value)


def encode_props(props, e):
    out = [_u32(len(props), e)]
    for name, ptype, value in props:
        out.append(_string(name, e))
        out.append(_u32(TYPES[ptype][0], e))
        out.append(encode_prop_value(ptype, value, e))
    return b''.join(out)


def encode_daqmx_index(ent, e):
    kind = ent['kind']
    hdr = DAQMX_FORMAT_CHANGING if kind == 'fc' else DAQMX_DIGITAL_LINE
    out = [_u32(hdr, e)]
    ct = ent['chan_type']
    out.append(_u32(0xFFFFFFFF if ct == 'raw' else TYPES[ct][0], e))
    out.append(_u32(ent.get('dim', 1), e))
    out.append(_u64(ent['n'], e))
    scalers = ent['scalers']
    out.append(_u32(len(scalers), e))
    for s in scalers:
        code = DAQMX_SCALER_TYPES[s['type']]
        if kind == 'fc':
            out.append(struct.pack(e + 'IIIII', code, s['buf'], s['off'], s.get('fmt', 0), s['id']))
        else:
            out.append(struct.pack(e + 'IIIBI', code, s['buf'], s['off'], s.get('fmt', 0) & 0xFF, s['id']))
    widths = ent['widths']
    out.append(_u32(len(widths), e))
    for w in widths:
        out.append(_u32(w, e))
    return b''.join(out)


def encode_entry(ent, e):
    out = [_string(ent['path'], e)]
    hdr = ent['hdr']
    if hdr == 'nodata':
        out.append(_u32(0xFFFFFFFF, e))
    elif hdr == 'same':
        out.append(_u32(0, e))
    elif hdr == 'full':
        t = ent['type']
        code = ent.get('type_code', TYPES[t][0])
        body = _u32(code, e) + _u32(ent.get('dim', 1), e) + _u64(ent['n'], e)
        if t == 'str':
            body += _u64(ent['total'], e)
        out.append(_u32(ent.get('index_len', len(body) + 4), e))
        out.append(body)
    elif hdr == 'daqmx':
        out.append(encode_daqmx_index(ent, e))
    else:
        raise ValueError("unknown header kind %r" % (hdr,))
    out.append(encode_props(ent.get('props') or [], e))
    return b''.join(out)


def encode_metadata(seg):
    e = '>' if seg.get('be') else '<'
    entries = seg.get('entries') or []
    return _u32(len(entries), e) + b''.join(encode_entry(ent, e) for ent in entries)


def encode_chunk_obj(t, chunk, be):
    """Raw bytes of one channel's values in one contiguous chunk"""
    e = '>' if be else '<'
    if t == 'str':
        enc = [s.encode('utf-8') for s in chunk]
        out = []
        off = 0
        for b in enc:
            off += len(b)
            out.append(_u32(off, e))
        return b''.join(out) + b''.join(enc)
    data = bytes(chunk)
    return swap_bytes(data, TYPES[t][3]) if be else data


def encode_raw(seg):
    """Return (raw bytes, layout) for the segment's raw data.

    layout = {'chunk_size': int, 'chunks': [{'start': rel, 'size': n, 'objs': {path: [rel_start, rel_end]}}]}
    (offsets relative to the start of the raw data); for interleaved segments objs maps to
    {'col': byte column, 'size': element size, 'stride': row bytes, 'rows': n}.
    """
    be = bool(seg.get('be'))
    active = seg.get('active') or []
    nchunks = seg.get('nchunks', 0)
    out = []
    layout = {'chunks': [], 'chunk_size': 0}
    pos = 0
    if seg.get('daqmx'):
        for k in range(nchunks):
            bufs = seg['buffers'][k]
            start = pos
            ranges = []
            for b in bufs:
                out.append(bytes(b))
                ranges.append([pos, pos + len(b)])
                pos += len(b)
            layout['chunks'].append({'start': start, 'size': pos - start, 'buffers': ranges})
        if layout['chunks']:
            layout['chunk_size'] = layout['chunks'][0]['size']
        return b''.join(out), layout
    if not active:
        return b'', layout
    if seg.get('interleaved'):
        sizes = [tsize(t) for (_p, t, _n) in active]
        stride = sum(sizes)
        n = active[0][2]
        for k in range(nchunks):
            start = pos
            cols = []
            for (p, t, _n) in active:
                d = bytes(seg['data'][p][k])
                cols.append(swap_bytes(d, TYPES[t][3]) if be else d)
            rows = []
            for r in range(n):
                for c, sz in zip(cols, sizes):
                    rows.append(c[r * sz:(r + 1) * sz])
            blob = b''.join(rows)
            out.append(blob)
            pos += len(blob)
            objs = {}
            col = 0
            for (p, t, _n), sz in zip(active, sizes):
                objs[p] = {'col': col, 'size': sz, 'stride': stride, 'rows': n}
                col += sz
            layout['chunks'].append({'start': start, 'size': pos - start, 'objs': objs})
    else:
        for k in range(nchunks):
            start = pos
            objs = {}
            for (p, t, _n) in active:
                blob = encode_chunk_obj(t, seg['data'][p][k], be)
                out.append(blob)
                objs[p] = [pos, pos + len(blob)]
                pos += len(blob)
            layout['chunks'].append({'start': start, 'size': pos - start, 'objs': objs})
    if layout['chunks']:
        layout['chunk_size'] = layout['chunks'][0]['size']
    return b''.join(out), layout


def encode_segment(seg, index_only=False):
    """Return (bytes, info) for one segment. info has offsets relative to the segment start."""
    be = bool(seg.get('be'))
    e = '>' if be else '<'
    has_meta = seg.get('meta', True)
    meta = encode_metadata(seg) if has_meta else b''
    pad = b'\x00' * seg.get('pad', 0)
    raw, layout = encode_raw(seg)
    if seg.get('trim_raw'):
        raw = raw[:max(len(raw) - seg['trim_raw'], 0)]
        if layout['chunks']:
            # the layout reports what is really there: the last chunk ends where the raw data ends
            last = dict(layout['chunks'][-1])
            last['size'] = max(len(raw) - last['start'], 0)
            layout = dict(layout, chunks=layout['chunks'][:-1] + [last])
    toc = 0
    if has_meta:
        toc |= TOC_META
    if seg.get('newlist', True) and has_meta:
        toc |= TOC_NEWLIST
    if seg.get('newlist_force'):
        toc |= TOC_NEWLIST
    raw_flag = seg.get('raw_flag')
    if raw_flag is None:
        raw_flag = len(raw) > 0
    if raw_flag:
        toc |= TOC_RAW
    if seg.get('interleaved'):
        toc |= TOC_INTERLEAVED
    toc |= seg.get('toc_extra', 0)
    if be:
        toc |= TOC_BIGENDIAN
    daqmx_flag = seg.get('daqmx_flag')
    if daqmx_flag is None:
        daqmx_flag = bool(seg.get('daqmx')) and len(raw) > 0
    if daqmx_flag:
        toc |= TOC_DAQMX
    raw_off = len(meta) + len(pad)
    next_off = raw_off + len(raw)
    tag = seg.get('tag', b'TDSm')
    if index_only:
        tag = seg.get('index_tag', b'TDSh')
    lead = (tag + struct.pack('<I', toc) + struct.pack(e + 'i', seg.get('version', 4713)) +
            _u64(0xFFFFFFFFFFFFFFFF if seg.get('marker') else next_off, e) + _u64(raw_off, e))
    info = {'meta_end': 28 + len(meta), 'data_pos': 28 + raw_off, 'end': 28 + next_off,
            'toc': toc, 'layout': layout}
    if index_only:
        return lead + meta + pad, info
    return lead + meta + pad + raw, info


def encode_file(fs, with_index=False):
    """Encode a file spec.  Returns (data bytes, index bytes or None, layout list).

    layout[i] = {'start','meta_end','data_pos','end','toc','layout'} with absolute offsets.
    """
    out = []
    idx = []
    lay = []
    pos = 0
    for seg in fs['segments']:
        blob, info = encode_segment(seg)
        out.append(blob)
        lay.append({'start': pos, 'meta_end': pos + info['meta_end'], 'data_pos': pos + info['data_pos'],
                    'end': pos + info['end'], 'toc': info['toc'], 'layout': info['layout']})
        pos += len(blob)
        if with_index:
            iblob, _ = encode_segment(seg, index_only=True)
            idx.append(iblob)
    return b''.join(out), (b''.join(idx) if with_index else None), lay
