"""Independent strict structural parser of TDMS bytes (no nptdms code).

Walks a byte string segment by segment using only the lead-in and the length fields it finds.
Deliberately strict where the npTDMS reader is lenient: every disagreement between a declared
length and the bytes that follow raises StructuralError with a reason.
"""
import struct

from .model import TYPES, TOC_META, TOC_NEWLIST, TOC_RAW, TOC_INTERLEAVED, TOC_BIGENDIAN, TOC_DAQMX

CODE_TO_TYPE = {v[0]: k for k, v in TYPES.items()}


class StructuralError(Exception):
    pass


class Cursor(object):
    def __init__(self, data, pos, end, what):
        self.data = data
        self.pos = pos
        self.end = end
        self.what = what

    def take(self, n, what):
        if n < 0 or self.pos + n > self.end:
            raise StructuralError('%s: need %d bytes for %s at offset %d, only %d left' % (
                self.what, n, what, self.pos, self.end - self.pos))
        b = self.data[self.pos:self.pos + n]
        self.pos += n
        return b

    def u32(self, e, what):
        return struct.unpack(e + 'I', self.take(4, what))[0]

    def u64(self, e, what):
        return struct.unpack(e + 'Q', self.take(8, what))[0]

    def string(self, e, what):
        n = self.u32(e, what + ' length')
        b = self.take(n, what)
        try:
            return b.decode('utf-8')
        except UnicodeDecodeError:
            raise StructuralError('%s: %s is not valid UTF-8' % (self.what, what))


def parse_prop_value(cur, e, code):
    t = CODE_TO_TYPE.get(code)
    if t is None:
        raise StructuralError('unknown property type code 0x%x' % code)
    if t == 'str':
        start = cur.pos
        s = cur.string(e, 'string property value')
        return t, cur.data[start:cur.pos], s
    if t == 'bool':
        b = cur.take(1, 'bool property')
        if b not in (b'\x00', b'\x01'):
            raise StructuralError('bool property byte %r' % b)
        return t, b, b == b'\x01'
    if t == 'ts':
        b = cur.take(16, 'timestamp property')
        if e == '<':
            frac, sec = struct.unpack('<Qq', b)
        else:
            sec, frac = struct.unpack('>qQ', b)
        return t, b, (sec, frac)
    size = TYPES[t][1]
    b = cur.take(size, '%s property' % t)
    if t in ('c64', 'c128'):
        raise StructuralError('complex property')
    fmt = {'i8': 'b', 'i16': 'h', 'i32': 'i', 'i64': 'q', 'u8': 'B', 'u16': 'H', 'u32': 'I', 'u64': 'Q',
           'f32': 'f', 'f64': 'd', 'f32u': 'f', 'f64u': 'd'}[t]
    return t, b, struct.unpack(e + fmt, b)[0]


def parse_segment(data, start, expect_tag=b'TDSm', index_only=False):
    if start + 28 > len(data):
        raise StructuralError('segment at %d: incomplete lead-in' % start)
    tag = data[start:start + 4]
    if tag != expect_tag:
        raise StructuralError('segment at %d: tag %r, expected %r' % (start, tag, expect_tag))
    toc = struct.unpack('<I', data[start + 4:start + 8])[0]
    e = '>' if toc & TOC_BIGENDIAN else '<'
    version, next_off, raw_off = struct.unpack(e + 'iQQ', data[start + 8:start + 28])
    seg = {'start': start, 'tag': tag, 'toc': toc, 'be': e == '>', 'version': version,
           'next_off': next_off, 'raw_off': raw_off, 'objects': [], 'lead_in': data[start:start + 28]}
    if next_off < raw_off:
        raise StructuralError('segment at %d: next segment offset %d < raw data offset %d' % (start, next_off, raw_off))
    meta_start = start + 28
    meta_end = meta_start + raw_off
    seg_end = meta_end if index_only else start + 28 + next_off
    if seg_end > len(data) or meta_end > len(data):
        raise StructuralError('segment at %d: declared end %d beyond file size %d' % (start, seg_end, len(data)))
    cur = Cursor(data, meta_start, meta_end, 'segment at %d metadata' % start)
    if toc & TOC_META:
        nobj = cur.u32(e, 'object count')
        for _ in range(nobj):
            obj = {}
            obj['path'] = cur.string(e, 'object path')
            hdr = cur.u32(e, 'raw data index header')
            obj['index_header'] = hdr
            if hdr == 0xFFFFFFFF:
                obj['kind'] = 'nodata'
            elif hdr == 0:
                obj['kind'] = 'same'
            elif hdr in (0x1269, 0x126A):
                raise StructuralError('DAQmx raw index not expected in writer output')
            else:
                obj['kind'] = 'full'
                istart = cur.pos
                code = cur.u32(e, 'data type')
                dim = cur.u32(e, 'dimension')
                n = cur.u64(e, 'number of values')
                t = CODE_TO_TYPE.get(code)
                obj.update(type_code=code, type=t, dim=dim, n=n)
                if t == 'str':
                    obj['total'] = cur.u64(e, 'string total size')
                obj['index_bytes_following'] = cur.pos - istart
            nprops = cur.u32(e, 'property count')
            props = []
            for _p in range(nprops):
                name = cur.string(e, 'property name')
                code = cur.u32(e, 'property type')
                t, raw, val = parse_prop_value(cur, e, code)
                props.append({'name': name, 'type_code': code, 'type': t, 'raw': raw, 'value': val})
            obj['props'] = props
            seg['objects'].append(obj)
    seg['meta_consumed'] = cur.pos - meta_start
    seg['meta_bytes'] = data[meta_start:meta_end]
    seg['end'] = seg_end
    if not index_only:
        seg['raw'] = data[meta_end:seg_end]
    return seg


def parse_file(data, expect_tag=b'TDSm', index_only=False):
    segs = []
    pos = 0
    while pos < len(data):
        seg = parse_segment(data, pos, expect_tag, index_only)
        segs.append(seg)
        if seg['end'] <= pos:
            raise StructuralError('segment at %d does not advance' % pos)
        pos = seg['end']
    return segs


def decode_raw(seg):
    """Decode the contiguous raw data of a writer-produced segment (one chunk).
    Returns {path: LE canonical bytes | list of str} and raises StructuralError on inconsistencies."""
    e = '>' if seg['be'] else '<'
    if seg['toc'] & TOC_INTERLEAVED:
        raise StructuralError('interleaved layout not expected in writer output')
    raw = seg['raw']
    pos = 0
    out = {}
    for obj in seg['objects']:
        if obj['kind'] != 'full':
            continue
        t = obj['type']
        n = obj['n']
        if t is None:
            raise StructuralError('object %s: unknown data type code 0x%x' % (obj['path'], obj['type_code']))
        if t == 'str':
            total = obj['total']
            if pos + total > len(raw):
                raise StructuralError('object %s: string data (%d bytes) exceeds raw data' % (obj['path'], total))
            blob = raw[pos:pos + total]
            if 4 * n > total:
                raise StructuralError('object %s: %d strings need %d offset bytes, total size %d' % (
                    obj['path'], n, 4 * n, total))
            offs = struct.unpack(e + '%dI' % n, blob[:4 * n]) if n else ()
            prev = 0
            strings = []
            for o in offs:
                if o < prev:
                    raise StructuralError('object %s: string offsets decrease' % obj['path'])
                strings.append(blob[4 * n + prev:4 * n + o])
                prev = o
            if 4 * n + prev != total:
                raise StructuralError('object %s: declared string total %d != 4*%d + %d text bytes' % (
                    obj['path'], total, n, prev))
            try:
                out[obj['path']] = [s.decode('utf-8') for s in strings]
            except UnicodeDecodeError:
                raise StructuralError('object %s: string data is not UTF-8' % obj['path'])
            pos += total
        else:
            size = TYPES[t][1]
            nb = n * size
            if pos + nb > len(raw):
                raise StructuralError('object %s: %d values of %s exceed the raw data' % (obj['path'], n, t))
            blob = raw[pos:pos + nb]
            if e == '>':
                from .model import swap_bytes
                blob = swap_bytes(blob, TYPES[t][3])
            out[obj['path']] = blob
            pos += nb
    if pos != len(raw):
        raise StructuralError('segment at %d: raw data is %d bytes but the declared types and counts imply %d' % (
            seg['start'], len(raw), pos))
    return out
