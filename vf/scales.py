"""NI_Scale graphs: strategy, TDMS property encoding and an independent interpreter (no nptdms code).

graph = [scale, ...]; scale i may consume raw data (src None) or any lower scale index.
  {'type': 'Linear', 'slope': m, 'intercept': c, 'src': None|j, 'explicit_src': bool}
  {'type': 'Polynomial', 'coeffs': [...], 'src': ..., 'size_prop': bool}
  {'type': 'Table', 'pre': [...], 'scaled': [...], 'src': ...}
  {'type': 'Add'|'Subtract', 'left': None|j, 'right': None|j}
  {'type': 'AdvancedAPI', 'src': ...}                      (no-op)
  sensor scales for dtype checks: RTD, Thermistor, Strain, Thermocouple (parameters as dicts)
"""
import bisect

import numpy as np
from hypothesis import strategies as st

RAW = 0xFFFFFFFF
_coef = st.one_of(st.sampled_from([0.0, 1.0, -1.0, 2.0, 0.5, 1e-3, -3.25, 100.0]),
                  st.floats(min_value=-1e3, max_value=1e3, allow_nan=False, allow_infinity=False))


def _is_float_node(graph, ref, raw_type):
    """whether the data produced by input reference `ref` is float64 (or a float raw type)"""
    if ref is None:
        return raw_type in ('f32', 'f64')
    s = graph[ref]
    if s['type'] == 'AdvancedAPI':
        return _is_float_node(graph, s['src'], raw_type)
    if s['type'] in ('Add', 'Subtract'):
        return _is_float_node(graph, s['left'], raw_type) or _is_float_node(graph, s['right'], raw_type)
    return True


@st.composite
def scale_graph(draw, raw_type, max_scales=5, types=('Linear', 'Polynomial', 'Table', 'Add', 'Subtract'), noop=False):
    n = draw(st.integers(1, max_scales)) if max_scales <= 5 else draw(st.integers(9, max_scales))
    graph = []
    kinds = list(types) + (['AdvancedAPI'] if noop else [])
    for i in range(n):
        refs = [None] + list(range(i))
        t = draw(st.sampled_from(kinds))
        if t in ('Add', 'Subtract'):
            left = draw(st.sampled_from(refs))
            right = draw(st.sampled_from(refs))
            # integer + integer arithmetic (wrap-around) is outside the defining formulas: one operand must be floating
            if not (_is_float_node(graph, left, raw_type) or _is_float_node(graph, right, raw_type)):
                floats = [r for r in refs if _is_float_node(graph, r, raw_type)]
                if not floats:
                    t = 'Linear'
                else:
                    left = draw(st.sampled_from(floats))
            if t != 'Linear':
                graph.append({'type': t, 'left': left, 'right': right})
                continue
        src = draw(st.sampled_from(refs))
        explicit = src is not None or draw(st.booleans())
        if t == 'Linear':
            graph.append({'type': 'Linear', 'slope': draw(_coef), 'intercept': draw(_coef), 'src': src,
                          'explicit_src': explicit})
        elif t == 'Polynomial':
            k = draw(st.integers(0, 5))
            graph.append({'type': 'Polynomial', 'coeffs': [draw(_coef) for _ in range(k)], 'src': src,
                          'explicit_src': explicit, 'size_prop': k != 4 or draw(st.booleans()),
                          'prop_order': draw(st.sampled_from(['fwd', 'fwd', 'rev']))})
        elif t == 'Table':
            k = draw(st.integers(2, 5))
            # knots on a 1e-3 grid: distinct by a realistic margin (subnormal spacings make the segment slope overflow)
            xs = sorted(x / 1000.0 for x in draw(st.lists(st.integers(-10 ** 7, 10 ** 7), min_size=k, max_size=k,
                                                          unique=True)))
            ys = [draw(_coef) for _ in range(k)]
            if draw(st.booleans()):
                xs = xs[::-1]
            graph.append({'type': 'Table', 'scaled': xs, 'pre': ys, 'src': src, 'explicit_src': explicit,
                          'prop_order': draw(st.sampled_from(['fwd', 'fwd', 'rev']))})
        else:
            graph.append({'type': 'AdvancedAPI', 'src': src, 'explicit_src': explicit})
    return graph


def chain_before(sensor, shape, m=2.0, c=0.0, m2=0.5, c2=1.0):
    """Put Linear scales in front of a sensor scale. Returns (graph, raw_for) where raw_for(v) is the raw value that makes
    the sensor scale see v.  shape 0: sensor reads the raw data; 1: [L0, S<-0]; 2: [L0, L1<-raw (unused), S<-0];
    3: [L0, L1<-0, S<-1].  Slopes should be powers of two so that raw_for is exact."""
    L0 = {'type': 'Linear', 'slope': m, 'intercept': c, 'src': None, 'explicit_src': False}
    if shape == 0:
        return [dict(sensor, src=None)], (lambda v: v)
    if shape == 1:
        return [L0, dict(sensor, src=0)], (lambda v: (v - c) / m)
    if shape == 2:
        L1 = {'type': 'Linear', 'slope': m2, 'intercept': c2, 'src': None, 'explicit_src': True}
        return [L0, L1, dict(sensor, src=0)], (lambda v: (v - c) / m)
    L1 = {'type': 'Linear', 'slope': m2, 'intercept': c2, 'src': 0, 'explicit_src': True}
    return [L0, L1, dict(sensor, src=1)], (lambda v: ((v - c2) / m2 - c) / m)


def _src_val(ref):
    return RAW if ref is None else ref


def graph_props(graph, with_count=True, status=None):
    """[[name, ptype, value], ...] TDMS properties describing the graph (coefficients as doubles, as NI writes them)"""
    props = []
    if with_count:
        props.append(['NI_Number_Of_Scales', 'u32', len(graph)])
    if status is not None:
        props.append(['NI_Scaling_Status', 'str', status])
    for i, s in enumerate(graph):
        pre = 'NI_Scale[%d]_' % i
        t = s['type']
        if i and graph[i - 1].get('prop_order') == 'rev':
            # properties are found by name: the order in which a file lists them carries no meaning
            props[block_start:] = props[block_start:][::-1]
        block_start = len(props)
        props.append([pre + 'Scale_Type', 'str', t])
        if t == 'Linear':
            props.append([pre + 'Linear_Slope', 'f64', s['slope']])
            props.append([pre + 'Linear_Y_Intercept', 'f64', s['intercept']])
            if s.get('explicit_src'):
                props.append([pre + 'Linear_Input_Source', 'u32', _src_val(s['src'])])
        elif t == 'Polynomial':
            if s.get('size_prop', True):
                props.append([pre + 'Polynomial_Coefficients_Size', 'u32', len(s['coeffs'])])
            for j, c in enumerate(s['coeffs']):
                props.append([pre + 'Polynomial_Coefficients[%d]' % j, 'f64', c])
            if s.get('explicit_src'):
                props.append([pre + 'Polynomial_Input_Source', 'u32', _src_val(s['src'])])
        elif t == 'Table':
            props.append([pre + 'Table_Pre_Scaled_Values_Size', 'u32', len(s['pre'])])
            props.append([pre + 'Table_Scaled_Values_Size', 'u32', len(s['scaled'])])
            for j, v in enumerate(s['pre']):
                props.append([pre + 'Table_Pre_Scaled_Values[%d]' % j, 'f64', v])
            for j, v in enumerate(s['scaled']):
                props.append([pre + 'Table_Scaled_Values[%d]' % j, 'f64', v])
            if s.get('explicit_src'):
                props.append([pre + 'Table_Input_Source', 'u32', _src_val(s['src'])])
        elif t in ('Add', 'Subtract'):
            props.append([pre + t + '_Left_Operand_Input_Source', 'u32', _src_val(s['left'])])
            props.append([pre + t + '_Right_Operand_Input_Source', 'u32', _src_val(s['right'])])
        elif t == 'AdvancedAPI':
            if s.get('explicit_src'):
                props.append([pre + 'AdvancedAPI_Input_Source', 'u32', _src_val(s['src'])])
        elif t == 'RTD':
            q = s['p']
            for k, pt in (('RTD_Current_Excitation', 'f64'), ('RTD_R0_Nominal_Resistance', 'f64'), ('RTD_A', 'f64'),
                          ('RTD_B', 'f64'), ('RTD_C', 'f64'), ('RTD_Lead_Wire_Resistance', 'f64'),
                          ('RTD_Resistance_Configuration', 'u32')):
                props.append([pre + k, pt, q[k]])
            props.append([pre + 'RTD_Input_Source', 'u32', _src_val(s['src'])])
        elif t == 'Thermistor':
            q = s['p']
            for k, pt in (('Thermistor_Excitation_Type', 'u32'), ('Thermistor_Excitation_Value', 'f64'),
                          ('Thermistor_Resistance_Configuration', 'u32'), ('Thermistor_R1_Reference_Resistance', 'f64'),
                          ('Thermistor_Lead_Wire_Resistance', 'f64'), ('Thermistor_A', 'f64'), ('Thermistor_B', 'f64'),
                          ('Thermistor_C', 'f64'), ('Thermistor_Temperature_Offset', 'f64')):
                props.append([pre + k, pt, q[k]])
            props.append([pre + 'Thermistor_Input_Source', 'u32', _src_val(s['src'])])
        elif t == 'Strain':
            q = s['p']
            for k, pt in (('Strain_Configuration', 'u32'), ('Strain_Poisson_Ratio', 'f64'), ('Strain_Gage_Resistance', 'f64'),
                          ('Strain_Lead_Wire_Resistance', 'f64'), ('Strain_Initial_Bridge_Voltage', 'f64'),
                          ('Strain_Gage_Factor', 'f64'), ('Strain_Bridge_Shunt_Calibration_Gain_Adjustment', 'f64'),
                          ('Strain_Voltage_Excitation', 'f64')):
                props.append([pre + k, pt, q[k]])
            props.append([pre + 'Strain_Input_Source', 'u32', _src_val(s['src'])])
        elif t == 'Thermocouple':
            q = s['p']
            props.append([pre + 'Thermocouple_Thermocouple_Type', 'u32', q['type_code']])
            props.append([pre + 'Thermocouple_Scaling_Direction', 'u32', q['direction']])
            props.append([pre + 'Thermocouple_Input_Source', 'u32', _src_val(s['src'])])
        else:
            raise KeyError(t)
    if graph and graph[-1].get('prop_order') == 'rev':
        props[block_start:] = props[block_start:][::-1]
    return props


# ----------------------------------------------------------------------------------------------
# independent interpreter

def horner(coeffs, x):
    """sum_j c_j x^j evaluated by Horner's rule in float64 (elementwise)"""
    x = np.asarray(x, dtype=np.float64)
    if not coeffs:
        return np.zeros(x.shape, dtype=np.float64)
    acc = np.full(x.shape, float(coeffs[-1]), dtype=np.float64)
    for c in reversed(coeffs[:-1]):
        acc = acc * x + float(c)
    return acc


def clamped_interp(x, xs, ys):
    """piecewise-linear interpolation through (xs, ys), xs strictly increasing, clamped outside"""
    x = np.asarray(x, dtype=np.float64)
    out = np.empty(x.shape, dtype=np.float64)
    for i, v in enumerate(x.ravel()):
        if v != v:
            out.flat[i] = np.nan            # NaN in, NaN out
        elif v <= xs[0]:
            out.flat[i] = ys[0]
        elif v >= xs[-1]:
            out.flat[i] = ys[-1]
        else:
            j = bisect.bisect_right(xs, v) - 1
            out.flat[i] = ys[j] + ((ys[j + 1] - ys[j]) / (xs[j + 1] - xs[j])) * (v - xs[j])
    return out


def eval_graph(graph, raw, upto=None):
    """(values, magnitude) of the last scale; magnitude = per-element scale of intermediate terms (for tolerances)"""
    cache = {}

    def ev(ref):
        if ref is None:
            r = np.asarray(raw)
            return r, np.abs(r.astype(np.float64))
        if ref in cache:
            return cache[ref]
        s = graph[ref]
        t = s['type']
        if t == 'Linear':
            x, mag = ev(s['src'])
            xf = x.astype(np.float64)
            v = xf * float(s['slope']) + float(s['intercept'])
            m = mag * abs(s['slope']) + abs(s['intercept'])
        elif t == 'Polynomial':
            x, mag = ev(s['src'])
            v = horner(s['coeffs'], x)
            m = horner([abs(c) for c in s['coeffs']], np.maximum(mag, np.abs(x.astype(np.float64))))
        elif t == 'Table':
            x, mag = ev(s['src'])
            xs, ys = list(s['scaled']), list(s['pre'])
            if xs[0] > xs[-1]:
                xs, ys = xs[::-1], ys[::-1]
            v = clamped_interp(x, xs, ys)
            # conditioning of an interpolation: an input perturbation is amplified by the steepest segment
            slope = max(abs((ys[k + 1] - ys[k]) / (xs[k + 1] - xs[k])) for k in range(len(xs) - 1))
            m = np.full(v.shape, max(abs(y) for y in ys), dtype=np.float64) + slope * mag
        elif t == 'Add':
            a, ma = ev(s['left'])
            b, mb = ev(s['right'])
            v = a + b
            m = ma + mb
        elif t == 'Subtract':
            a, ma = ev(s['left'])
            b, mb = ev(s['right'])
            v = b - a          # documented: right operand minus left operand (matches NI's Excel add-in)
            m = ma + mb
        elif t == 'AdvancedAPI':
            v, m = ev(s['src'])
        else:
            raise KeyError(t)
        cache[ref] = (v, m)
        return cache[ref]
    return ev(len(graph) - 1 if upto is None else upto)


def graph_dtype(graph, raw_dtype, ref='last'):
    """numpy dtype of the data the graph produces for raw data of raw_dtype (defining formulas in float64)"""
    if ref == 'last':
        ref = len(graph) - 1
    if ref is None:
        return np.dtype(raw_dtype)
    s = graph[ref]
    if s['type'] in ('Add', 'Subtract'):
        return np.result_type(graph_dtype(graph, raw_dtype, s['left']), graph_dtype(graph, raw_dtype, s['right']))
    if s['type'] == 'AdvancedAPI':
        return graph_dtype(graph, raw_dtype, s['src'])
    return np.dtype('float64')
