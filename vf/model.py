"""Logical file model shared by all checks.

Everything here is written from the NI TDMS layout description and shares no
code or tables with nptdms.  A *case* is a plain JSON-serialisable structure
(dicts / lists / str / int / float / bool / bytes); bytes are serialised as
{"$b": hex}.

Type names used throughout:

    i8 i16 i32 i64 u8 u16 u32 u64 f32 f64 f32u f64u str bool ts c64 c128

Numeric chunk values are held as *little-endian canonical* bytes
(len == n * size); string chunk values as lists of str; the encoder produces
the byte order a segment asks for.
"""
import hashlib
import json
import struct

import numpy as np

# name -> (tdms type code, element size, numpy dtype string (LE) or None, byte-swap unit)
TYPES = {
    'i8':   (1, 1, '<i1', 1),
    'i16':  (2, 2, '<i2', 2),
    'i32':  (3, 4, '<i4', 4),
    'i64':  (4, 8, '<i8', 8),
    'u8':   (5, 1, '<u1', 1),
    'u16':  (6, 2, '<u2', 2),
    'u32':  (7, 4, '<u4', 4),
    'u64':  (8, 8, '<u8', 8),
    'f32':  (9, 4, '<f4', 4),
    'f64':  (10, 8, '<f8', 8),
    'f32u': (0x19, 4, '<f4', 4),
    'f64u': (0x1A, 8, '<f8', 8),
    'str':  (0x20, None, 'O', None),
    'bool': (0x21, 1, '?', 1),
    'ts':   (0x44, 16, None, 16),       # LE: u64 fractions, i64 seconds; BE: whole 16 bytes reversed
    'c64':  (0x08000c, 8, '<c8', 4),    # two floats, each in segment byte order
    'c128': (0x10000d, 16, '<c16', 8),
}
FIXED_TYPES = [t for t in TYPES if t != 'str']
NUMERIC_TYPES = ['i8', 'i16', 'i32', 'i64', 'u8', 'u16', 'u32', 'u64', 'f32', 'f64']
ALL_TYPES = list(TYPES)

# names nptdms gives the corresponding type classes (used only to *report* / compare data_type names)
NPTDMS_TYPE_NAME = {
    'i8': 'Int8', 'i16': 'Int16', 'i32': 'Int32', 'i64': 'Int64',
    'u8': 'Uint8', 'u16': 'Uint16', 'u32': 'Uint32', 'u64': 'Uint64',
    'f32': 'SingleFloat', 'f64': 'DoubleFloat', 'f32u': 'SingleFloatWithUnit', 'f64u': 'DoubleFloatWithUnit',
    'str': 'String', 'bool': 'Boolean', 'ts': 'TimeStamp', 'c64': 'ComplexSingleFloat',
    'c128': 'ComplexDoubleFloat',
}

# property value types (13): name -> struct char (or None)
PROP_TYPES = {
    'i8': 'b', 'i16': 'h', 'i32': 'i', 'i64': 'q', 'u8': 'B', 'u16': 'H', 'u32': 'I', 'u64': 'Q',
    'f32': 'f', 'f64': 'd', 'str': None, 'bool': None, 'ts': None,
}
INT_RANGES = {
    'i8': (-2**7, 2**7 - 1), 'i16': (-2**15, 2**15 - 1), 'i32': (-2**31, 2**31 - 1), 'i64': (-2**63, 2**63 - 1),
    'u8': (0, 2**8 - 1), 'u16': (0, 2**16 - 1), 'u32': (0, 2**32 - 1), 'u64': (0, 2**64 - 1),
}

TOC_META = 1 << 1
TOC_NEWLIST = 1 << 2
TOC_RAW = 1 << 3
TOC_INTERLEAVED = 1 << 5
TOC_BIGENDIAN = 1 << 6
TOC_DAQMX = 1 << 7

DAQMX_FORMAT_CHANGING = 0x1269
DAQMX_DIGITAL_LINE = 0x126A
# DAQmx scaler type codes (differ from the normal TDMS codes)
DAQMX_SCALER_TYPES = {
    'u8': 0, 'i8': 1, 'u16': 2, 'i16': 3, 'u32': 4, 'i32': 5, 'u64': 6, 'i64': 7, 'f32': 8, 'f64': 9,
}


def tsize(t):
    return TYPES[t][1]


def np_dtype(t):
    """numpy dtype (little endian) of values of type t, None for ts"""
    d = TYPES[t][2]
    return None if d is None else np.dtype(d)


# ----------------------------------------------------------------------------------------------
# object paths (own implementation of the TDMS quoting rule: components in single quotes, quotes doubled)

def make_path(group=None, channel=None):
    if group is None:
        return '/'
    p = "/'" + group.replace("'", "''") + "'"
    if channel is not None:
        p += "/'" + channel.replace("'", "''") + "'"
    return p


def split_path(path):
    """Inverse of make_path, independent of nptdms: returns () / (g,) / (g, c)"""
    if path == '/':
        return ()
    comps = []
    i = 0
    n = len(path)
    while i < n:
        if path[i] != '/' or i + 1 >= n or path[i + 1] != "'":
            raise ValueError("bad path %r" % path)
        i += 2
        cur = []
        while True:
            if i >= n:
                raise ValueError("unterminated component in %r" % path)
            ch = path[i]
            if ch == "'":
                if i + 1 < n and path[i + 1] == "'":
                    cur.append("'")
                    i += 2
                    continue
                i += 1
                break
            cur.append(ch)
            i += 1
        comps.append(''.join(cur))
    return tuple(comps)


# ----------------------------------------------------------------------------------------------
# JSON (de)serialisation of cases

def _enc(o):
    if isinstance(o, (bytes, bytearray)):
        return {'$b': bytes(o).hex()}
    if isinstance(o, dict):
        return {str(k): _enc(v) for k, v in o.items()}
    if isinstance(o, (list, tuple)):
        return [_enc(v) for v in o]
    if isinstance(o, (np.integer,)):
        return int(o)
    if isinstance(o, (np.floating,)):
        return float(o)
    if isinstance(o, (np.bool_,)):
        return bool(o)
    return o


def _dec(o):
    if isinstance(o, dict):
        if len(o) == 1 and '$b' in o:
            return bytes.fromhex(o['$b'])
        return {k: _dec(v) for k, v in o.items()}
    if isinstance(o, list):
        return [_dec(v) for v in o]
    return o


def to_json(case, **kw):
    return json.dumps(_enc(case), sort_keys=True, **kw)


def from_json(text):
    return _dec(json.loads(text))


def case_hash(case):
    return hashlib.sha1(to_json(case).encode('utf-8', 'surrogatepass')).hexdigest()


def abbreviate(o, maxlen=48, maxitems=8):
    """Shorten a case for display in evidence samples"""
    if isinstance(o, (bytes, bytearray)):
        h = bytes(o).hex()
        return 'hex:' + (h if len(h) <= maxlen else h[:maxlen] + '..(%dB)' % len(o))
    if isinstance(o, str):
        return o if len(o) <= maxlen else o[:maxlen] + '..(%d chars)' % len(o)
    if isinstance(o, dict):
        items = list(o.items())
        r = {str(k): abbreviate(v, maxlen, maxitems) for k, v in items[:maxitems * 2]}
        if len(items) > maxitems * 2:
            r['..'] = '%d more keys' % (len(items) - maxitems * 2)
        return r
    if isinstance(o, (list, tuple)):
        r = [abbreviate(v, maxlen, maxitems) for v in o[:maxitems]]
        if len(o) > maxitems:
            r.append('..(%d items)' % len(o))
        return r
    if isinstance(o, (np.integer,)):
        return int(o)
    if isinstance(o, (np.floating, float)):
        return repr(float(o))
    if isinstance(o, np.bool_):
        return bool(o)
    return o


# ----------------------------------------------------------------------------------------------
# value helpers

def swap_bytes(data, unit):
    """Reverse every `unit`-byte group of data (LE <-> BE of fixed width elements)"""
    if unit in (None, 1) or not data:
        return bytes(data)
    a = np.frombuffer(bytes(data), dtype=np.uint8).reshape(-1, unit)
    return a[:, ::-1].tobytes()


def chunk_len(t, chunk):
    if t == 'str':
        return len(chunk)
    return len(chunk) // tsize(t)


def str_chunk_bytes(strings):
    """Raw bytes size of a string chunk: 4-byte end offset per string plus utf-8 text"""
    return sum(4 + len(s.encode('utf-8')) for s in strings)


def ts_pairs(data):
    """LE canonical timestamp bytes -> list of (seconds, fractions)"""
    out = []
    for i in range(0, len(data), 16):
        frac, sec = struct.unpack('<Qq', data[i:i + 16])
        out.append((sec, frac))
    return out
